#!/usr/bin/env python3
"""Evaluate one independently written breaking change (from a sub-agent's scratch worktree).

usage: tools/seed_eval.py <seed-id> <worktree> <property> [check ids to run ... | all]

1. saves `git diff` of the worktree as seeded/<seed-id>/patch.diff (+ demo.py, NOTES.md),
2. applies the patch to a scratch copy of /repo under /var/tmp (never to /repo),
3. runs the repository's pinned baseline on the scratch copy (must stay 104/104),
4. runs the demonstration with the change (must exit 1) and without it (must exit 0),
5. runs the named checks (quick tier) against the scratch copy and reports which fire,
6. writes seeded/<seed-id>/meta.json; removes the scratch copy.
"""
import json
import os
import shutil
import subprocess
import sys

HERE = os.path.dirname(os.path.abspath(__file__))
VERIF = os.path.dirname(HERE)
ALL = ['C%02d' % i for i in range(1, 20)]


def sh(cmd, **kw):
    return subprocess.run(cmd, shell=isinstance(cmd, str), capture_output=True, text=True, **kw)


def main():
    sid, wt, prop = sys.argv[1:4]
    checks = sys.argv[4:] or [prop]
    if checks == ['all']:
        checks = ALL
    out = os.path.join(VERIF, 'seeded', sid)
    os.makedirs(out, exist_ok=True)
    diff = sh(['git', '-C', wt, 'diff', '--', 'src']).stdout
    if not diff.strip():
        print('no source change in', wt)
        return 1
    open(os.path.join(out, 'patch.diff'), 'w').write(diff)
    for name in ('demo.py', 'NOTES.md'):
        if os.path.exists(os.path.join(wt, name)):
            shutil.copy(os.path.join(wt, name), os.path.join(out, name))
    scratch = '/var/tmp/seed-%s' % sid
    shutil.rmtree(scratch, ignore_errors=True)
    sh(['rsync', '-a', '--exclude', '.git', '--exclude', '__pycache__', '/repo/', scratch + '/'])
    p = sh(['patch', '-p1', '-d', scratch, '-i', os.path.join(out, 'patch.diff')])
    if p.returncode != 0:
        print('patch does not apply to /repo HEAD:', p.stdout[-400:], p.stderr[-400:])
        shutil.rmtree(scratch, ignore_errors=True)
        return 1
    meta = dict(seed_id=sid, property=prop, patch='patch.diff', demonstration='demo.py')
    try:
        b = sh([sys.executable, os.path.join(HERE, 'baseline.py'), scratch])
        for _ in range(2):         # (a timing-sensitive test can fail on a loaded machine: up to two more runs decide)
            if b.returncode == 0:
                break
            meta.setdefault('baseline_failed_runs', []).append(b.stdout.strip()[:300])
            b = sh([sys.executable, os.path.join(HERE, 'baseline.py'), scratch])
        meta['baseline_with_change'] = (b.stdout.strip().splitlines() or ['?'])[0]
        env = dict(os.environ)
        d1 = sh(['/venv/bin/python', '-B', os.path.join(out, 'demo.py')], env=dict(env, PYTHONPATH=scratch + '/src'), cwd='/var/tmp')
        d0 = sh(['/venv/bin/python', '-B', os.path.join(out, 'demo.py')], env=dict(env, PYTHONPATH='/repo/src'), cwd='/var/tmp')
        meta['demo_exit_with_change'] = d1.returncode
        meta['demo_exit_without_change'] = d0.returncode
        meta['demo_output_with_change'] = (d1.stdout + d1.stderr)[-600:]
        results = {}
        for c in checks:
            r = sh([os.path.join(VERIF, 'check'), c, '--tier', 'quick', '--no-evidence'],
                   env=dict(env, VERIF_REPO=scratch, VERIF_SEED='0'))
            lines = [ln for ln in r.stdout.splitlines() if ln.startswith(('VIOLATION', 'INCONCLUSIVE'))]
            results[c] = dict(exit=r.returncode, verdict={0: 'held (missed)', 1: 'VIOLATION (caught)', 2: 'inconclusive'}.get(r.returncode),
                              mechanisms=[ln.split('mechanism=')[-1] if 'mechanism=' in ln else ln[:160] for ln in lines[:4]])
            print(sid, c, results[c]['verdict'], results[c]['mechanisms'][:2])
        meta['checks_quick_seed0'] = results
        meta['caught_by'] = sorted(c for c, v in results.items() if v['exit'] == 1)
    finally:
        shutil.rmtree(scratch, ignore_errors=True)
    meta['confirmed'] = bool(meta.get('demo_exit_with_change') == 1 and meta.get('demo_exit_without_change') == 0
                             and '104/104' in meta.get('baseline_with_change', ''))
    prev = {}
    mp = os.path.join(out, 'meta.json')
    if os.path.exists(mp):
        prev = json.load(open(mp))
    prev.update(meta)
    json.dump(prev, open(mp, 'w'), indent=1)
    print(json.dumps({k: v for k, v in meta.items() if k not in ('checks_quick_seed0', 'demo_output_with_change')}, indent=1))
    return 0


if __name__ == '__main__':
    sys.exit(main())
