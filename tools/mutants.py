"""Deliberate breakages used to validate the monitors (each must still pass the repo's own
test-suite to count as 'realistic'; see MUTATION_LOG.md for the verdict table)."""
EXT = 'src/numdifftools/extrapolation.py'
FD = 'src/numdifftools/finite_difference.py'
CORE = 'src/numdifftools/core.py'
LIM = 'src/numdifftools/limits.py'
SG = 'src/numdifftools/step_generators.py'
MC = 'src/numdifftools/multicomplex.py'
FB = 'src/numdifftools/fornberg.py'
NS = 'src/numdifftools/nd_scipy.py'

MUTANTS = [
    # ---- C13
    dict(id='c13-deltas-swapped', props=['C13'], file=EXT,
         old='        delta2, delta1 = e_2 - e_1, e_1 - e_0\n        err2, err1 = np.abs(delta2), np.abs(delta1)\n        tol2, tol1 = max_abs(e_2, e_1)',
         new='        delta1, delta2 = e_2 - e_1, e_1 - e_0\n        err2, err1 = np.abs(delta2), np.abs(delta1)\n        tol2, tol1 = max_abs(e_2, e_1)'),
    dict(id='c13-tiny-guard-removed', props=['C13'], file=EXT,
         old='        delta1[err1 < _TINY] = _TINY\n', new=''),
    dict(id='c13-converged-and', props=['C13'], file=EXT,
         old='converged = (err1 <= tol1) | (err2 <= tol2) | smalle2',
         new='converged = (err1 <= tol1) & (err2 <= tol2) | smalle2'),
    dict(id='c13-inplace', props=['C13'], file=EXT,
         old='        result = np.where(converged, e_2 * 1.0, e_1 + 1.0 / sss)',
         new='        e_1 += 0.0 * e_1\n        e_1 += 1.0 / sss\n        result = np.where(converged, e_2 * 1.0, e_1)'),
    dict(id='c13-abserr-drops-last', props=['C13'], file=EXT,
         old='abserr = err1 + err2 + np.where(converged, tol2 * 10, np.abs(result - e_2))',
         new='abserr = (err1 + err2) * 1e-12'),
    dict(id='c13-symmetric-offbyone', props=['C13'], file=EXT,
         old='        return result[:-1], abserr[1:]', new='        return result[:-1], abserr[:-1]'),
]
