"""Deliberate breakages used to validate the monitors (each must still pass the repo's own
test-suite to count as 'realistic'; see MUTATION_LOG.md for the verdict table)."""
EXT = 'src/numdifftools/extrapolation.py'
FD = 'src/numdifftools/finite_difference.py'
CORE = 'src/numdifftools/core.py'
LIM = 'src/numdifftools/limits.py'
SG = 'src/numdifftools/step_generators.py'
MC = 'src/numdifftools/multicomplex.py'
FB = 'src/numdifftools/fornberg.py'
NS = 'src/numdifftools/nd_scipy.py'

MUTANTS = [
    # ---- C13
    dict(id='c13-deltas-swapped', props=['C13'], file=EXT,
         old='        delta2, delta1 = e_2 - e_1, e_1 - e_0\n        err2, err1 = np.abs(delta2), np.abs(delta1)\n        tol2, tol1 = max_abs(e_2, e_1)',
         new='        delta1, delta2 = e_2 - e_1, e_1 - e_0\n        err2, err1 = np.abs(delta2), np.abs(delta1)\n        tol2, tol1 = max_abs(e_2, e_1)'),
    dict(id='c13-tiny-guard-removed', props=['C13'], file=EXT,
         old='        delta1[err1 < _TINY] = _TINY\n', new=''),
    dict(id='c13-converged-and', props=['C13'], file=EXT,
         old='converged = (err1 <= tol1) | (err2 <= tol2) | smalle2',
         new='converged = (err1 <= tol1) & (err2 <= tol2) | smalle2'),
    dict(id='c13-inplace', props=['C13'], file=EXT,
         old='        result = np.where(converged, e_2 * 1.0, e_1 + 1.0 / sss)',
         new='        e_1 += 0.0 * e_1\n        e_1 += 1.0 / sss\n        result = np.where(converged, e_2 * 1.0, e_1)'),
    dict(id='c13-abserr-drops-last', props=['C13'], file=EXT,
         old='abserr = err1 + err2 + np.where(converged, tol2 * 10, np.abs(result - e_2))',
         new='abserr = (err1 + err2) * 1e-12'),
    dict(id='c13-symmetric-offbyone', props=['C13'], file=EXT,
         old='        return result[:-1], abserr[1:]', new='        return result[:-1], abserr[:-1]'),
]

MUTANTS += [
    dict(id='c15-update-order', props=['C15', 'C16'], file=FB,
         old='        c_2, c_5, c_4 = 1, c_4, x[i] - x0', new='        c_2, c_4, c_5 = 1, x[i] - x0, c_4'),
    dict(id='c15-min-i-n-minus-1', props=['C15', 'C16'], file=FB,
         old='        j = np.arange(0, min(i, n) + 1)', new='        j = np.arange(0, min(i, max(n - 1, 0)) + 1)'),
    dict(id='c15-no-transpose-row', props=['C15'], file=FB,
         old='    return fd_weights_all(x, x0, n)[-1]', new='    return fd_weights_all(x, x0, n)[n - 1 if n > 3 else n]'),
    dict(id='c15-last-node-sign', props=['C15', 'C16'], file=FB,
         old='        weights[i, j] = c_1 * (c_6 - c_5 * c_7) / c_2', new='        weights[i, j] = c_1 * (c_6 - c_5 * c_7) / c_2 * (1 + 1e-9 * (i == 7))'),
]

MUTANTS += [
    dict(id='c07-rule-not-reversed', props=['C07'], file=EXT,
         old='new_sequence = convolve(sequence, rule[::-1], axis=0, origin=n_r // 2)',
         new='new_sequence = convolve(sequence, rule, axis=0, origin=n_r // 2)'),
    dict(id='c07-origin-shift', props=['C07'], file=EXT,
         old='new_sequence = convolve(sequence, rule[::-1], axis=0, origin=n_r // 2)',
         new='new_sequence = convolve(sequence, rule[::-1], axis=0, origin=(n_r + 1) // 2)'),
    dict(id='c07-rmatrix-order-plus-one', props=['C07'], file=EXT,
         old='(1.0 / step_ratio) ** (i * (step * j + order))',
         new='(1.0 / step_ratio) ** (i * (step * j + order + (order > 6)))'),
    dict(id='c07-convolve-drops-imag', props=['C07'], file=EXT,
         old="return convolve1d(seq.real, rule, **kwds) + 1j * convolve1d(seq.imag, rule, **kwds)",
         new="return convolve1d(seq.real, rule.real, **kwds) + 1j * convolve1d(seq.imag, rule.real, **kwds)"),
    dict(id='c07-short-seq-terms', props=['C07'], file=EXT,
         old='        num_terms = min(self.num_terms, sequence_length - 1)',
         new='        num_terms = min(self.num_terms, max(sequence_length - 2, 0)) if sequence_length < 3 else min(self.num_terms, sequence_length - 1)'),
    dict(id='c07-abserr-sign', props=['C07'], file=EXT,
         old="        err = np.abs(np.diff(new_sequence, axis=0)) * fact\n",
         new="        err = np.diff(np.abs(new_sequence), axis=0) * fact\n"),
]

MUTANTS += [
    dict(id='c16-interior-window-short', props=['C16'], file=FB,
         old="        du[i] = np.dot(fd_weights(x[i - mm:i + mm + 1], x0=x[i], n=n),\n                       fx[i - mm:i + mm + 1])",
         new="        du[i] = np.dot(fd_weights(x[i - mm:i + mm], x0=x[i], n=n),\n                       fx[i - mm:i + mm])"),
    dict(id='c16-right-boundary-x0', props=['C16'], file=FB,
         old="du[-i - 1] = np.dot(fd_weights(x[-size:], x0=x[-i - 1], n=n), fx[-size:])",
         new="du[-i - 1] = np.dot(fd_weights(x[-size:], x0=x[-i - 1] if i else x[-1] * (1 + 1e-9), n=n), fx[-size:])"),
    dict(id='c16-boundary-size', props=['C16'], file=FB,
         old="    size = 2 * mm + 2  # stencil size at boundary", new="    size = 2 * mm  # stencil size at boundary"),
    dict(id='c16-last-interior-skipped', props=['C16'], file=FB,
         old="    for i in range(mm, num_x - mm):", new="    for i in range(mm, num_x - mm - 1):"),
]

MUTANTS += [
    dict(id='c14-epsalg-parity', props=['C14'], file=EXT,
         old='            estlim = epstab[n % 2]', new='            estlim = epstab[0]'),
    dict(id='c14-shift-stride', props=['C14'], file=EXT,
         old='        epstab[i_0:i_n:2] = epstab[i_0 + 2:i_n + 2:2]', new='        epstab[i_0:i_n] = epstab[i_0 + 2:i_n + 2]'),
    dict(id='c14-limexp-parity', props=['C14'], file=EXT,
         old='        n = 2 * (limexp // 2) + 1\n', new='        n = 2 * (limexp // 2)\n'),
    dict(id='c14-floor-removed', props=['C14'], file=EXT,
         old='        abserr = max(abserr, 5.0*_EPS*abs(result))\n', new=''),
    dict(id='c14-undo-f7-fix', props=['C14'], edits=[
        (EXT, '                n = 2 * i\n                # ***jump out of do-loop\n                # go to 100',
         '                # ***jump out of do-loop\n                # go to 100'),
        (EXT, '        if n == limexp - 1:\n            n = limexp - 2  # 2*(limexp//2) - 1\n        self._shift_table(epstab, n, newelm, old_n)\n        if not all_converged:\n',
         '        if not all_converged:\n            if n == limexp - 1:\n                n = limexp - 2\n            self._shift_table(epstab, n, newelm, old_n)\n')]),
    dict(id='c14-undo-f8-fix', props=['C14'], file=EXT,
         old='abserr = max(6.0 * abs(result - epstab[0]), 5.0 * _EPS * abs(result))',
         new='abserr = 6.0 * abs(result - epstab[0])'),
    dict(id='c14-undo-nan-fix', props=['C14'], file=EXT,
         old='any_converged = not epsinf > 1e-4  # (a nan from inf - inf is irregular too)', new='any_converged = epsinf <= 1e-4'),
    dict(id='c14-epsalg-guard-1e-30', props=['C14'], file=EXT,
         old='                if np.abs(delta) <= 1.0e-60:', new='                if np.abs(delta) <= 1.0e-30:'),
    dict(id='c14-epsalg-guard', props=['C14'], file=EXT,
         old='                if np.abs(delta) <= 1.0e-60:', new='                if np.abs(delta) <= 1.0e-6:'),
]

MUTANTS += [
    dict(id='c10-sign-swap', props=['C10'], file=SG,
         old='    _sign = 1\n\n    def _range(self):\n        return range(self.num_steps - 1, -1, -1)',
         new='    _sign = 1\n\n    def _range(self):\n        return range(self.num_steps - 1, 0, -1)'),
    dict(id='c10-divisor-table', props=['C10'], file=SG,
         old='        complex_divisior = 4 if (n > 1 or order >= 4) else 2',
         new='        complex_divisior = 4 if (n > 1 or order >= 2) else 2'),
    dict(id='c10-nom-clip-removed', props=['C10'], file=SG,
         old='    return np.log(1.718281828459045 + np.abs(x)).clip(min=1)',
         new='    return np.log(1.718281828459045 + np.abs(x)).clip(min=0.9)'),
    dict(id='c10-cstep-numsteps-noabs', props=['C10'], file=LIM,
         old='            return 2 * int(np.round(16.0 / np.log(np.abs(self.step_ratio)))) + 1',
         new='            return 2 * int(np.round(16.0 / np.log(np.abs(self._step_ratio)) + 0.0)) + 1 + 2 * (self._step_ratio == 3)'),
    dict(id='c10-default-scale-n5', props=['C10'], file=SG,
         old='          3.65 + n_4 * (5 + 1.7 ** n_4),', new='          3.65 + n_4 * (5 + 1.75 ** n_4),'),
    dict(id='c10-min-steps-high-central', props=['C10'], file=SG,
         old='        return max(num_steps // divisor, 1)', new='        return max((num_steps - (num_steps > 14)) // divisor, 1)'),
    dict(id='c10-exact-ratio-skipped', props=['C10'], file=SG,
         old='            step_ratio = make_exact(step_ratio)\n', new='            pass\n'),
    dict(id='c10-max-gen-fewer-default-steps', props=['C10'], file=SG,
         old="    def __init__(self, base_step=2.0, step_ratio=None, num_steps=15,", new="    def __init__(self, base_step=2.0, step_ratio=None, num_steps=9,"),
]

MUTANTS += [
    dict(id='c06-parity5-offset', props=['C06', 'C01'], file=FD,
         old='        offset = [1, 1, 2, 2, 4, 1, 3][parity]', new='        offset = [1, 1, 2, 2, 4, 3, 3][parity]'),
    dict(id='c06-c0-parity4', props=['C06', 'C01'], file=FD,
         old='        c_0 = [1.0, 1.0, 1.0, 2.0, 24.0, 1.0, 6.0][parity]', new='        c_0 = [1.0, 1.0, 1.0, 2.0, 6.0, 1.0, 6.0][parity]'),
    dict(id='c06-num-terms-off-by-one', props=['C06', 'C01'], file=FD,
         old='        num_terms = (order + method_order) // step\n', new='        num_terms = (order + method_order) // step + (self.n == 5)\n'),
    dict(id='c06-richardson-step-complex', props=['C06', 'C01'], file=FD,
         old='        complex_step = 4 if self._complex_high_order else 2', new='        complex_step = 4 if (self._complex_high_order and self.n != 6) else 2'),
    dict(id='c06-flip-list', props=['C06', 'C01'], file=FD,
         old="(self.n % 8 in [3, 4, 5, 6])", new="(self.n % 8 in [3, 4, 5])"),
    dict(id='c06-central-even-sign', props=['C06', 'C01', 'C05'], file=FD,
         old="        return (f(x0i + h) + f(x0i - h)) / 2.0 - f_x0i\n\n    @staticmethod\n    def _central(f, f_x0i, x0i, h):",
         new="        return (f(x0i + h) + f(x0i - h)) / 2.0 - f_x0i * (1 + 1e-13)\n\n    @staticmethod\n    def _central(f, f_x0i, x0i, h):"),
    dict(id='c06-rule-index-complex', props=['C06', 'C01'], file=FD,
         old="        rule_index = order // step\n", new="        rule_index = (order // step + 1) if (method == 'complex' and self.n == 9) else order // step\n"),
    dict(id='c06-method-order-floor', props=['C06'], file=FD,
         old="        order = max((self.order // step) * step, step)", new="        order = max(((self.order - 1) // step) * step, step)"),
    dict(id='c06-apply-origin', props=['C06', 'C01'], file=FD,
         old="        f_diff = convolve(f_del, fd_rule[::-1], axis=0, origin=n_r // 2)",
         new="        f_diff = convolve(f_del, fd_rule[::-1], axis=0, origin=n_r // 2 - (n_r == 4))"),
]

MUTANTS += [
    dict(id='c05-hessian-backward-plus', props=['C05', 'C04'], file=FD,
         old="        return HessianDifferenceFunctions._forward(f, f_x, x, -h)", new="        return HessianDifferenceFunctions._forward(f, f_x, x, h)"),
    dict(id='c05-jacobian-forward-minus', props=['C05', 'C03'], file=FD,
         old="        return np.array([f(x + hi) - f_x for hi in steps])", new="        return np.array([f_x - f(x - hi) for hi in steps])"),
    dict(id='c05-central-2h', props=['C05', 'C01'], file=FD,
         old="    def _central(f, f_x0i, x0i, h):  # @UnusedVariable\n        return (f(x0i + h) - f(x0i - h)) / 2.0",
         new="    def _central(f, f_x0i, x0i, h):  # @UnusedVariable\n        return (f(x0i + 2 * h) - f(x0i - 2 * h)) / 4.0"),
    dict(id='c05-multicomplex-real-shift', props=['C05', 'C01'], file=FD,
         old="        z = Bicomplex(x + 1j * h, 0)\n        return Bicomplex.__array_wrap__(f(z)).imag",
         new="        z = Bicomplex(x + h * 1e-3 + 1j * h, 0)\n        return Bicomplex.__array_wrap__(f(z)).imag"),
    dict(id='c05-hessdiag-forward-two-coords', props=['C05', 'C04'], file=FD,
         old="        partials = [f(x + hi) - f_x for hi in increments]",
         new="        partials = [f(x + hi + 1e-9 * h) - f_x for hi in increments]"),
    dict(id='c05-central-asymmetric', props=['C05', 'C01'], file=FD,
         old="        return (f(x0i + h) + f(x0i - h)) / 2.0 - f_x0i\n\n    @staticmethod\n    def _central(f",
         new="        return (f(x0i + h) + f(x0i - h * (1 + 1e-6))) / 2.0 - f_x0i\n\n    @staticmethod\n    def _central(f"),
    dict(id='c05-backward-mixed-side', props=['C05', 'C01'], file=FD,
         old="    def _backward(f, f_x0i, x0i, h):\n        return f_x0i - f(x0i - h)",
         new="    def _backward(f, f_x0i, x0i, h):\n        return f_x0i - f(x0i - h) + 0 * f(x0i + 1e-3 * h)"),
]

MUTANTS += [
    dict(id='c12-cosh-z2-sign', props=['C12', 'C01'], file=MC,
         old="        z2 = np.sinh(self.z1) * np.sin(self.z2)\n        return Bicomplex(z1, z2)\n\n    def sinh(self):",
         new="        z2 = -np.sinh(self.z1) * np.sin(self.z2)\n        return Bicomplex(z1, z2)\n\n    def sinh(self):"),
    dict(id='c12-mul-cross-term', props=['C12', 'C01'], file=MC,
         old="                         self.z1 * other.z2 + self.z2 * other.z1)", new="                         self.z1 * other.z2 - self.z2 * other.z1)"),
    dict(id='c12-argc-pi-sign', props=['C12', 'C01'], file=MC,
         old="np.where(0 <= z2.real, 1, -1))", new="np.where(0 < z2.real, 1, -1))"),
    dict(id='c12-rsub', props=['C12'], file=MC,
         old="        return -self.__sub__(other)", new="        return self.__sub__(other)"),
    dict(id='c12-undo-intpow-ring', props=['C01', 'C02', 'C12'], file=MC,
         old='            return self._pow_integer(int(other))\n', new='            pass\n'),
    dict(id='c12-inverse-unscaled', props=['C12'], file=MC,
         old='        scale = np.maximum(np.abs(self.z1), np.abs(self.z2))  # the squares must not overflow',
         new='        scale = 1.0'),
    dict(id='c12-inverse-sign', props=['C12', 'C01'], file=MC,
         old='        return Bicomplex(z1 / mod2 / scale, -z2 / mod2 / scale)', new='        return Bicomplex(z1 / mod2 / scale, z2 / mod2 / scale)'),
    dict(id='c12-powint-skips-last-square', props=['C12', 'C01'], file=MC,
         old='            if n & 1:\n                out = out * base\n            n >>= 1\n            if n > 0:\n                base = base * base',
         new='            if n & 1:\n                out = out * base\n            n >>= 1\n            if n > 1:\n                base = base * base'),
    dict(id='c12-undo-div-scaling', props=['C01', 'C12'], file=MC,
         old='        if isinstance(other, Bicomplex):\n            # scale numerator', new='        if False:\n            # scale numerator'),
    dict(id='c16-undo-int-samples-fix', props=['C16'], file=FB,
         old='    du = np.zeros(np.shape(fx), dtype=np.result_type(np.asarray(fx).dtype, float))', new='    du = np.zeros_like(fx)'),
    dict(id='c12-undo-relative-zero-divisor', props=['C12'], file=MC,
         old='non_invertible = np.abs(self.mod_c()) <= 1e-15 * self.norm()', new='non_invertible = np.abs(self.mod_c()) < 1e-15'),
    dict(id='c12-undo-f5-expm1', props=['C12', 'C01'], file=MC,
         old="        return Bicomplex(expz1 * np.cos(self.z2) - 2 * np.sin(0.5 * self.z2) ** 2,\n                         (expz1 + 1) * np.sin(self.z2))",
         new="        return Bicomplex(expz1 * np.cos(self.z2), expz1 * np.sin(self.z2))"),
    dict(id='c12-arctan-half', props=['C12', 'C01'], file=MC,
         old="        tmp = J * (arg1.log() - arg2.log()) * 0.5", new="        tmp = J * (arg1.log() - arg2.conjugate().conjugate().log()) * 0.5 * (1 + 1e-9)"),
    dict(id='c12-exp2-base', props=['C12'], file=MC,
         old="        return np.exp(self * np.log(2))", new="        return np.exp(self * 0.6931471)"),
    dict(id='c12-sin-second-order', props=['C12', 'C01'], file=MC,
         old="        z1 = np.cosh(self.z2) * np.sin(self.z1)\n        z2 = np.sinh(self.z2) * np.cos(self.z1)",
         new="        z1 = np.sin(self.z1)\n        z2 = np.sinh(self.z2) * np.cos(self.z1)"),
]

MUTANTS += [
    dict(id='c11-no-complex-fx-assert', props=['C11'], file=CORE,
         old="        _assert(not np.any(np.iscomplex(f_x)),\n                msg + ' But the function given is complex valued!')", new="        pass"),
    dict(id='c11-num-steps-le', props=['C11', 'C10'], file=FD,
         old="        _assert(n_r < num_steps, 'num_steps", new="        _assert(n_r <= num_steps, 'num_steps"),
    dict(id='c11-vstack-size-assert', props=['C11', 'C08'], file=FD,
         old="        h = np.vstack([np.ravel(one * step) for step in steps])\n        _assert(f_del.size == h.size, 'fun did not return data of correct '\n                'size (it must be vectorized)')\n        return f_del, h, original_shape\n\n    def apply",
         new="        h = np.vstack([np.ravel(one * step) for step in steps])\n        return f_del, h, original_shape\n\n    def apply"),
    dict(id='c11-undo-f4', props=['C11'], file=CORE,
         old="        if self.method in ['complex', 'multicomplex']:\n            self._raise_error_if_any_is_complex(x_i, fxi)\n", new=""),
    dict(id='c11-undo-f13', props=['C11'], file=FB,
         old="    _assert(size <= num_x, 'len(x) must be at least 2 * (n // 2 + m) + 2')\n", new=""),
    dict(id='c11-residue-assert', props=['C11'], file=LIM,
         old="        _assert(pole_order < order, 'order must be at least pole_order+1.')", new="        _assert(pole_order <= order, 'order must be at least pole_order+1.')"),
    dict(id='c11-multicomplex-n3', props=['C11'], file=FD,
         old="            _assert(self.n <= 2, 'Multicomplex method only support first '", new="            _assert(self.n <= 3, 'Multicomplex method only support first '"),
    dict(id='c11-directionaldiff-typeerror', props=['C11'], file=CORE,
         old="    _assert(x0.size == vec.size, 'vec and x0 must be the same shapes')", new="    assert x0.size == vec.size, 'vec and x0 must be the same shapes'"),
    dict(id='c11-path-startswith', props=['C11'], file=LIM,
         old="        _assert(self.path in ['spiral', 'radial'], 'Invalid Path: {}'.format(str(self.path)))",
         new="        _assert(self.path[:6] in ['spiral', 'radial'], 'Invalid Path: {}'.format(str(self.path)))"),
]

MUTANTS += [
    dict(id='c19-central-is-2point', props=['C19'], file=NS,
         old="method = dict(complex='cs', central='3-point', forward='2-point',", new="method = dict(complex='cs', central='2-point', forward='2-point',"),
    dict(id='c19-bounds-dropped', props=['C19'], file=NS,
         old="kwargs=kwds, bounds=self.bounds, sparsity=self.sparsity)", new="kwargs=kwds, sparsity=self.sparsity)"),
    dict(id='c19-kwds-dropped', props=['C19'], file=NS,
         old="options = dict(method=method, rel_step=self.step, args=args,\n                       kwargs=kwds,", new="options = dict(method=method, rel_step=self.step, args=args,\n                       kwargs={},"),
    dict(id='c19-gradient-no-squeeze', props=['C19'], file=NS,
         old="                                              *args, **kwds).squeeze()", new="                                              *args, **kwds)"),
    dict(id='c19-complex-is-forward', props=['C19'], file=NS,
         old="method = dict(complex='cs',", new="method = dict(complex='2-point',"),
    dict(id='c19-step-ignored', props=['C19'], file=NS,
         old="rel_step=self.step, args=args,", new="rel_step=None, args=args,"),
]

MUTANTS += [
    dict(id='c08-percentile-axis-none', props=['C08'], file=LIM,
         old="                p25, median, p75 = percentile(der, [25, 50, 75], axis=0)", new="                p25, median, p75 = percentile(der, [25, 50, 75], axis=None)"),
    dict(id='c08-nanmin-whole-array', props=['C08'], file=LIM,
         old="        min_errors = np.nanmin(errors, axis=0)\n", new="        min_errors = np.nanmin(errors, axis=0)\n        min_errors[:] = np.nanmin(min_errors)\n"),
    dict(id='c08-kwds-dropped', props=['C08'], file=CORE,
         old="            return fun(x, *args, **kwds)\n", new="            return fun(x, *args)\n"),
    dict(id='c08-undo-f6', props=['C08'], file=LIM,
         old="""        all_nan = np.all(np.isnan(errors), axis=0)
        if np.any(all_nan):
            warnings.warn('All-NaN slice encountered')
            # only the columns without any valid estimate fall back to the first row
            errors = errors.copy()
            errors[0, all_nan] = np.inf
        arg_mins = np.nanargmin(errors, axis=0)
        min_errors = np.nanmin(errors, axis=0)
""", new="""        try:
            arg_mins = np.nanargmin(errors, axis=0)
            min_errors = np.nanmin(errors, axis=0)
        except ValueError as msg:
            warnings.warn(str(msg))
            return np.arange(shape[1])
"""),
    dict(id='c08-nom-step-shared', props=['C08'], file=SG,
         old="    return np.log(1.718281828459045 + np.abs(x)).clip(min=1)", new="    return np.log(1.718281828459045 + np.max(np.abs(x))).clip(min=1) + 0 * np.abs(x)"),
    dict(id='c08-median-of-all', props=['C08'], file=LIM,
         old="        a_median = np.abs(median)\n", new="        a_median = np.abs(np.median(median)) + 0 * median\n"),
    dict(id='c08-args-copied', props=['C08'], file=CORE,
         old="            return fun(x, *args, **kwds)\n", new="            return fun(x, *[a * 1.0 for a in args], **kwds)\n"),
]

MUTANTS += [
    dict(id='c09-cache-key-drops-parity', props=['C09', 'C06', 'C01'], edits=[
        (FD, "        fd_rules = FD_RULES.get((step_ratio, parity, num_terms))", "        fd_rules = FD_RULES.get((step_ratio, parity % 5, num_terms))"),
        (FD, "            FD_RULES[(step_ratio, parity, num_terms)] = fd_rules", "            FD_RULES[(step_ratio, parity % 5, num_terms)] = fd_rules")]),
    dict(id='c09-state-not-reset', props=['C09', 'C10'], file=SG,
         old="        self._state = _STATE(np.asarray(x), method, n, order)\n",
         new="        self._state = _STATE(np.asarray(x), method, n, self._state.order if hasattr(self, '_seen_once') else order)\n        self._seen_once = True\n"),
    dict(id='c09-richardson-once', props=['C09', 'C01'], file=CORE,
         old="        self.set_richardson_rule(step_ratio, self.richardson_terms)\n\n        return self.fd_rule.apply(results, steps, step_ratio), fxi\n\n    def set_richardson_rule",
         new="        if not hasattr(self, '_rr_set'):\n            self.set_richardson_rule(step_ratio, self.richardson_terms)\n            self._rr_set = True\n\n        return self.fd_rule.apply(results, steps, step_ratio), fxi\n\n    def set_richardson_rule"),
    dict(id='c01-undo-integer-doubling-fix', props=['C01'], file=FD,
         old="        return 12.0 * (f(x + i_h) + f(x - i_h) - 2.0 * f_x).real\n", new="        return 12.0 * (f(x + i_h) + f(x - i_h) - 2 * f_x).real\n"),
    dict(id='c02-undo-negative-step-estimate-fix', props=['C02'], file=EXT,
         old="            return (np.abs(new_sequence) * EPS + np.abs(steps)) * fact\n", new="            return (np.abs(new_sequence) * EPS + steps) * fact\n"),
    dict(id='c14-undo-epsalg-term-copy-fix', props=['C14'], file=EXT,
         old="        s_n = copy(s_n)  # a term held in an array may be updated in place by the caller\n", new=""),
    dict(id='c09-undo-shallow-copy-fix', props=['C09'], edits=[
        (CORE, "        super(Derivative, self).__init__(step=step,  **options)\n", "        super(Derivative, self).__init__(step=step,  **options)\n        self._set_derivative()\n"),
        (CORE, "        self.fd_rule.n = value\n", "        self.fd_rule.n = value\n        self._set_derivative()\n"),
        (CORE, "    def _derivative(self, x_i, args, kwds):\n        if self.n == 0:\n            return self._derivative_zero_order(x_i, args, kwds)\n        return self._derivative_nonzero_order(x_i, args, kwds)\n",
         "    def _set_derivative(self):\n        if self.n == 0:\n            self._derivative = self._derivative_zero_order\n        else:\n            self._derivative = self._derivative_nonzero_order\n")]),
    dict(id='c09-n-dispatch-frozen-at-first-call', props=['C09'], file=CORE,
         old="    def _derivative(self, x_i, args, kwds):\n        if self.n == 0:\n",
         new="    def _derivative(self, x_i, args, kwds):\n        if not hasattr(self, '_n0'):\n            self._n0 = self.n == 0\n        if self._n0:\n"),
    dict(id='c09-module-global-scratch', props=['C09'], edits=[
        (FD, "        fd_rules = FD_RULES.get((step_ratio, parity, num_terms))\n        if fd_rules is None:\n            fd_mat = self._fd_matrix(step_ratio, parity, num_terms)\n            fd_rules = linalg.pinv(fd_mat)\n",
         "        global _SCRATCH\n        _SCRATCH = (step_ratio, parity, num_terms)\n        fd_rules = FD_RULES.get(_SCRATCH)\n        if fd_rules is None:\n            fd_mat = self._fd_matrix(step_ratio, parity, num_terms)\n            fd_rules = linalg.pinv(self._fd_matrix(*_SCRATCH))\n")]),
    dict(id='c09-class-level-richardson', props=['C09'], edits=[
        (CORE, "        self.richardson = Richardson(step_ratio=step_ratio,\n                                     step=step, order=order,\n                                     num_terms=num_terms)",
         "        Derivative.richardson = Richardson(step_ratio=step_ratio,\n                                           step=step, order=order,\n                                           num_terms=num_terms)"),
        (LIM, "        self.richardson = Richardson(step_ratio=1.6, step=1, order=1, num_terms=2)", "        pass")]),
    dict(id='c09-cached-steps-on-generator', props=['C09'], file=CORE,
         old="        step_gen = self.step.step_generator_function(x_i, method, n, order)\n        return list(step_gen()), step_gen.step_ratio",
         new="        key = (method, n, order, np.shape(x_i))\n        cache = self.step.__dict__.setdefault('_memo', {})\n        if key not in cache:\n            step_gen = self.step.step_generator_function(x_i, method, n, order)\n            cache[key] = (list(step_gen()), step_gen.step_ratio)\n        return cache[key]"),
]

MUTANTS += [
    dict(id='c01-argmin-first-row', props=['C01', 'C02'], file=LIM,
         old="            arg_mins[i] = idx[idx.size // 2]\n", new="            arg_mins[i] = idx[0] * 0\n"),
    dict(id='c01-multicomplex2-imag2', props=['C01', 'C02'], file=FD,
         old="        z = Bicomplex(x + 1j * h, h)\n        return Bicomplex.__array_wrap__(f(z)).imag12",
         new="        z = Bicomplex(x + 1j * h, h)\n        return Bicomplex.__array_wrap__(f(z)).imag12 * (1 + h)"),
    dict(id='c01-central-even-fx-weight', props=['C01', 'C02'], file=FD,
         old="        return (f(x0i + h) + f(x0i - h)) / 2.0 - f_x0i\n\n    @staticmethod\n    def _central(f, f_x0i",
         new="        return (f(x0i + h) + f(x0i - h)) / 2.0 - f_x0i * (1 - 1e-9)\n\n    @staticmethod\n    def _central(f, f_x0i"),
    dict(id='c01-complex-odd-higher-factor', props=['C01', 'C06'], file=FD,
         old="        return ((3 * _SQRT_J) * (f(x + i_h) - f(x - i_h))).real", new="        return ((3 * _SQRT_J) * (f(x + i_h) - f(x - i_h))).real * (1 + 1e-6)"),
    dict(id='c01-richardson-order-plus-one', props=['C01', 'C06'], file=CORE,
         old="        order = self.method_order\n        step = self.fd_rule.richardson_step\n        self.richardson",
         new="        order = self.method_order + (self.n == 3)\n        step = self.fd_rule.richardson_step\n        self.richardson"),
    dict(id='c01-n0-returns-shifted', props=['C01', 'C02'], file=CORE,
         old="        results = [self.fun(x_i, *args, **kwds)]\n", new="        results = [self.fun(x_i * (1 + 1e-15), *args, **kwds)]\n"),
    dict(id='c01-forward-fx-stale', props=['C01', 'C02'], file=CORE,
         old="        if self.fd_rule.eval_first_condition or self.full_output:\n            return f(x)\n        return 0.0",
         new="        if self.fd_rule.eval_first_condition or self.full_output:\n            return f(x * (1 + 1e-10))\n        return 0.0"),
    dict(id='c01-step-nom-abs-missing', props=['C01', 'C10'], file=SG,
         old="    return np.log(1.718281828459045 + np.abs(x)).clip(min=1)", new="    return np.log(1.718281828459045 + x).clip(min=1)"),
    dict(id='c01-dea3-keeps-e1', props=['C01', 'C13'], file=EXT,
         old="        result = np.where(converged, e_2 * 1.0, e_1 + 1.0 / sss)", new="        result = np.where(converged, e_1 * 1.0, e_1 + 1.0 / sss)"),
    dict(id='c01-outlier-penalty-dropped', props=['C01', 'C02'], file=LIM,
         old="        errors += _Limit._add_error_to_outliers(der)\n", new="        errors += 0 * _Limit._add_error_to_outliers(der)\n"),
]

MUTANTS += [
    dict(id='c02-t-factor-tiny', props=['C02'], file=EXT,
         old="        fact = np.maximum(12.7062047361747 * np.sqrt(cov1), EPS * 10.)", new="        fact = np.maximum(12.7062047361747e-6 * np.sqrt(cov1), EPS * 10.)"),
    dict(id='c02-dea3-abserr-zeroed', props=['C02', 'C13'], file=EXT,
         old="    abserr = err1 + err2 + np.where(converged, tol2 * 10, np.abs(result - e_2))", new="    abserr = (err1 + err2 + np.where(converged, tol2 * 10, np.abs(result - e_2))) * 1e-8"),
    dict(id='c02-final-step-shifted', props=['C02'], file=LIM,
         old="        final_step = steps.flat[idx].reshape(shape)", new="        final_step = (steps.flat[idx] * 1e-3).reshape(shape)"),
    dict(id='c02-fvalue-from-shifted-point', props=['C02'], file=CORE,
         old="            return derivative, self.info(f_xi, *info)", new="            return derivative, self.info(f_xi * (1 + 1e-15), *info)"),
    dict(id='c02-err-negative', props=['C02'], file=LIM,
         old="        err = errors.flat[idx].reshape(shape)", new="        err = -errors.flat[idx].reshape(shape)"),
    dict(id='c02-err-from-first-row', props=['C02'], file=LIM,
         old="        err = errors.flat[idx].reshape(shape)", new="        err = errors.flat[idx * 0].reshape(shape) * 1e-9"),
    dict(id='c02-gradient-estimate-of-first-entry', props=['C02'], file=CORE,
         old="            return result[0].squeeze(), result[1]", new="            return result[0].squeeze(), result[1]._replace(error_estimate=result[1].error_estimate.ravel()[:1])"),
    dict(id='c02-index-offset', props=['C02'], file=LIM,
         old="        return der.flat[idx].reshape(shape), _Limit.info(err, final_step, idx)", new="        return der.flat[idx].reshape(shape), _Limit.info(err, final_step, idx + der.size)"),
]

MUTANTS += [
    dict(id='c03-vstack-no-axis-swap', props=['C03'], file=FD,
         old="            axes[:2] = axes[1::-1]\n            original_shape[:2] = original_shape[1::-1]\n", new="            original_shape[:2] = original_shape[1::-1]\n"),
    dict(id='c03-increments-not-reset', props=['C03', 'C05'], file=FD,
         old="            yield e_i\n            e_i[k] = 0", new="            yield e_i\n            e_i[k] = 0 if k != 2 else h[k] * 1e-3"),
    dict(id='c03-gradient-no-squeeze', props=['C03'], file=CORE,
         old="            return result[0].squeeze(), result[1]\n        return result.squeeze()", new="            return result[0], result[1]\n        return result"),
    dict(id='c03-ddiff-no-normalisation', props=['C03'], file=CORE,
         old="    vec = np.reshape(vec / np.linalg.norm(vec.ravel()), x0.shape)", new="    vec = np.reshape(vec / np.max(np.abs(vec.ravel())), x0.shape)"),
    dict(id='c03-undo-f3', props=['C03'], file=CORE,
         old="        if np.ndim(fxi) == 0:\n            return steps", new="        if np.size(fxi) == 1:\n            return steps"),
    dict(id='c03-expand-steps-wrong-index', props=['C03'], file=CORE,
         old="        return [np.array([one * h[i] for i in range(n)]) for h in steps]", new="        return [np.array([one * h[min(i, 1)] for i in range(n)]) for h in steps]"),
    dict(id='c03-jacobian-complex-odd-half', props=['C03'], file=FD,
         old="        return np.array([((j_1 / 2.) * (f(x + j_1 * ih) - f(x - j_1 * ih))).imag for ih in steps])",
         new="        return np.array([((j_1 / 2.) * (f(x + j_1 * ih) - f(x - j_1 * ih))).imag * (1 + 1e-7) for ih in steps])"),
    dict(id='c03-gradient-ravel-order', props=['C03'], file=CORE,
         old="        result = super(Gradient, self).__call__(np.atleast_1d(x).ravel(), *args, **kwds)", new="        result = super(Gradient, self).__call__(np.atleast_1d(x).ravel(order='F'), *args, **kwds)"),
]

MUTANTS += [
    dict(id='c04-central-even-offdiag-sign', props=['C04'], file=FD,
         old="                              - f(x - e_i + e_j) + f(x - e_i - e_j)) / (4. * hess[j, i])", new="                              - f(x - e_i + e_j) - f(x - e_i - e_j)) / (4. * hess[j, i])"),
    dict(id='c04-forward-no-mirror', props=['C04'], file=FD,
         old="                hess[i, j] = (f(x + eee[i, :] + eee[j, :]) - g[i] - g[j] + f_x) / hess[j, i]\n                hess[j, i] = hess[i, j]",
         new="                hess[i, j] = (f(x + eee[i, :] + eee[j, :]) - g[i] - g[j] + f_x) / hess[j, i]\n                hess[j, i] = hess[i, j] * (1 + 1e-15)"),
    dict(id='c04-central2-denominator', props=['C04'], file=FD,
         old="                              - f_xme[i] - f_xme[j] + f_x) / (2 * hess[j, i])", new="                              - f_xme[i] - f_xme[j] + f_x) / (2 * hess[j, i]) * (1 + 1e-7 * (i != j))"),
    dict(id='c04-undo-f2', props=['C04'], file=CORE,
         old="            if np.shape(f_x) == (1,):  # a length-1 array is the value of a scalar function\n                f_x = f_x[0]\n", new=""),
    dict(id='c04-hessdiag-central-even-half', props=['C04'], file=FD,
         old="        partials = [(f(x + hi) + f(x - hi)) / 2.0 - f_x for hi in increments]\n        return np.array(partials)\n\n    @staticmethod\n    def _backward(f, f_x, x, h):\n        n = len(x)\n        increments = np.identity(n) * h\n        partials = [f_x - f(x - hi) for hi in increments]",
         new="        partials = [(f(x + hi) + f(x - hi)) / 2.0 - f_x * (1 + 1e-12) for hi in increments]\n        return np.array(partials)\n\n    @staticmethod\n    def _backward(f, f_x, x, h):\n        n = len(x)\n        increments = np.identity(n) * h\n        partials = [f_x - f(x - hi) for hi in increments]"),
    dict(id='c04-complex-even-factor', props=['C04'], file=FD,
         old="        hess = 2. * np.outer(h, h)\n", new="        hess = 2. * np.outer(h, h) * (1 + 1e-6)\n"),
    dict(id='c04-multicomplex2-wrong-pair', props=['C04'], file=FD,
         old="                zph = Bicomplex(x + 1j * eee[i, :], eee[j, :])", new="                zph = Bicomplex(x + 1j * eee[i, :], eee[j if j < 3 else i, :])"),
    dict(id='c04-hessian-order-forward', props=['C04'], file=FD,
         old="        return dict(backward=1, forward=1).get(self.method, 2)\n\n    @order.setter", new="        return dict(backward=2, forward=1).get(self.method, 2)\n\n    @order.setter"),
]

MUTANTS += [
    dict(id='c17-num-coefs-table', props=['C17'], file=FB,
         old="    correction = np.array([0, 0, 1, 3, 4, 7])[_get_logn(n)]", new="    correction = np.array([0, 0, 1, 3, 40, 7])[_get_logn(n)]"),
    dict(id='c17-radius-power-sign', props=['C17'], file=FB,
         old="            bs.append(bn * np.power(r, -mvec))", new="            bs.append(bn * np.power(r, -mvec) * (1 + 1e-9 * mvec))"),
    dict(id='c17-derivative-errors-unscaled', props=['C17'], file=FB,
         old="        info = _INFO(info_.error_estimate * fact, *info_[1:])", new="        info = _INFO(info_.error_estimate, *info_[1:])"),
    dict(id='c17-failed-is-converged', props=['C17'], file=FB,
         old="            failed = not converged", new="            failed = bool(converged) and i > 27"),
    dict(id='c17-extrapolate-exponent', props=['C17'], file=FB,
         old="        extrap0.append(richardson(bs, k=k, c=1.0 - (rs[k - 1] / rs[k]) ** m))", new="        extrap0.append(richardson(bs, k=k, c=1.0 - (rs[k - 1] / rs[k]) ** (m - 1)))"),
    dict(id='c17-errors-tiny', props=['C17'], file=FB,
         old="        errors = info.error_estimate\n", new="        errors = info.error_estimate * 1e-9\n"),
    dict(id='c17-circle-endpoint', props=['C17'], file=FB,
         old="    theta = np.linspace(0.0, 2.0 * np.pi, num=m, endpoint=False)", new="    theta = np.linspace(0.0, 2.0 * np.pi, num=m, endpoint=(m == 64))"),
    dict(id='c17-fewer-coefs-returned', props=['C17'], file=FB,
         old="            return coefs, info\n        return coefs\n", new="            return coefs[:self.n], info\n        return coefs[:self.n]\n"),
]

MUTANTS += [
    dict(id='c18-sign-swapped', props=['C18'], file=LIM,
         old="        sign = dict(forward=1, above=1, backward=-1, below=-1)[self.method]", new="        sign = dict(forward=1, above=-1, backward=-1, below=1)[self.method]"),
    dict(id='c18-order-terms', props=['C18'], file=LIM,
         old="        self._set_richardson_rule(self.step.step_ratio, self.order + 1)", new="        self._set_richardson_rule(self.step.step_ratio ** 2, self.order + 1)"),
    dict(id='c18-put-whole-array', props=['C18'], file=LIM,
         old="            np.put(f_z, k, lim_fz)\n", new="            f_z = f_z + 0 * lim_fz.ravel()[0] if f_z.size == 1 else (f_z * (1 + 1e-15)); np.put(f_z, k, lim_fz)\n"),
    dict(id='c18-residue-power', props=['C18'], file=LIM,
         old="        return self.fun(z + d_z, *args, **kwds) * (d_z ** self.pole_order)", new="        return self.fun(z + d_z, *args, **kwds) * (d_z ** (self.pole_order - (self.pole_order == 3)))"),
    dict(id='c18-only-first-nan', props=['C18'], file=LIM,
         old="        k = np.flatnonzero(np.isnan(f_z))\n", new="        k = np.flatnonzero(np.isnan(f_z))[:3]\n"),
    dict(id='c18-spiral-dtheta-ignored', props=['C18', 'C10'], file=LIM,
         old="        if dtheta != 0:\n            _step_ratio = np.exp(1j * dtheta) * _step_ratio  # a spiral path", new="        if dtheta != 0 and False:\n            _step_ratio = np.exp(1j * dtheta) * _step_ratio  # a spiral path"),
    dict(id='c18-error-estimate-dropped', props=['C18'], file=LIM,
         old="                np.put(err, k, info1.error_estimate)", new="                np.put(err, k, info1.error_estimate * 0)"),
    dict(id='c18-undo-f1', props=['C18', 'C17', 'C01'], file=LIM,
         old="            if np.iscomplexobj(der):  # percentile does not accept complex input\n                p25, median, p75 = (percentile(der.real, [25, 50, 75], axis=0)\n                                    + 1j * percentile(der.imag, [25, 50, 75], axis=0))\n            else:\n                p25, median, p75 = percentile(der, [25, 50, 75], axis=0)",
         new="            p25, median, p75 = percentile(der, [25, 50, 75], axis=0)"),
]
