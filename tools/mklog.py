#!/usr/bin/env python3
"""Turn the output of `tools/mutate.py --baseline` into MUTATION_LOG.md."""
import re, sys, collections
rows = []
for ln in open(sys.argv[1]):
    m = re.match(r'^(\S+)\s+(C\d\d)\s+(CAUGHT|MISSED\(held\)|inconclusive)\s+([\d.]+)s\s*(.*?)\s*suite (\d+/\d+)\s*$', ln.rstrip())
    if m:
        rows.append(m.groups())
NOTES = {
 'c13-tiny-guard-removed': 'equivalent: the converged branch already covers zero differences (only warnings change)',
 'c13-converged-and': 'not a violation of C13 as stated: inside the guard only finiteness / non-negative estimate is promised',
 'c13-abserr-drops-last': 'for a single geometric transient the true error is at rounding level, so any non-negative estimate is honest (the statement quantifies over single transients only); also breaks 3 suite tests',
 'c15-update-order': 'equivalent (tuple assignment evaluates the right-hand side first)',
 'c10-divisor-table': 'equivalent: min_num_steps is max(., 1) in the affected cells',
 'c11-vstack-size-assert': 'equivalent for the property: numpy raises ValueError downstream in every misuse shape',
 'c12-argc-pi-sign': 'equivalent inside the real domain (differs only for z2.real == 0 with a negative real base)',
 'c04-hessdiag-central-even-half': 'a 1e-12 relative perturbation of f(x): below the head-room of the honesty form',
 'c01-dea3-keeps-e1': 'near-equivalent: when the convergence test fires e_1 and e_2 differ by at most the tolerance eps*max|e|, so returning e_1 instead of e_2 stays inside "L up to rounding"; an earlier workload caught it once through C01 (1 execution), the present one does not',
 'c17-extrapolate-exponent': 'the extrapolation exponent only changes how fast the rows converge; the reported estimates are differences of successive rows and grow with the error, so the property as stated still holds (an earlier workload saw 3 executions outside the bound, the present one none)',
 'c04-hessian-order-forward': 'only the Richardson order assumption changes; results stay within 300 x the reported estimate',
}
by = collections.OrderedDict()
for mid, prop, verdict, dt, mech, suite in rows:
    by.setdefault(mid, []).append((prop, verdict, mech, suite))
out = ['# Mutation log', '',
       'Produced by `tools/mutate.py --baseline -j 5` (quick tier, VERIF_SEED=0). Each mutant of tools/mutants.py is applied to a scratch copy',
       'of /repo under /var/tmp; `suite` is the repository\'s pinned baseline on the mutant (104/104 = every stable test still passes, i.e. the',
       'breakage is invisible to the existing tests); then the named checks run with VERIF_REPO pointing at the copy.', '',
       '| mutant | suite | check | verdict | mechanism reported |', '|---|---|---|---|---|']
caught_any, total = 0, 0
uncaught = []
for mid, lst in by.items():
    total += 1
    if any(v == 'CAUGHT' for _, v, _, _ in lst):
        caught_any += 1
    else:
        uncaught.append(mid)
    for prop, verdict, mech, suite in lst:
        out.append('| %s | %s | %s | %s | %s |' % (mid, suite, prop, verdict, mech.replace('|', ';')[:140]))
out += ['', '## Summary', '', '%d mutants, %d caught by at least one of their checks, %d caught by none:' % (total, caught_any, len(uncaught)), '']
for mid in uncaught:
    out.append('* `%s` - %s' % (mid, NOTES.get(mid, 'see DESIGN.md section 0')))
out += ['', 'Rows "MISSED(held)" for a *secondary* check (e.g. a C05 evaluation-point mutant run against C01) are expected: that breakage',
        'does not change the quantity the secondary property speaks about.', '']
open(sys.argv[2], 'w').write('\n'.join(out))
print(total, caught_any, uncaught)
