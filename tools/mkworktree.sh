#!/bin/bash
# usage: tools/mkworktree.sh C07 [suffix]  -> scratch worktree /tmp/wt-C07<suffix> with PROPERTY.txt (property text only)
set -e
id=$1; suf=${2:-}
wt=/tmp/wt-$id$suf
git -C /repo worktree add --detach "$wt" HEAD >/dev/null 2>&1
python3 - "$id" "$wt" <<'P'
import json,sys
pid,wt=sys.argv[1:3]
for l in open('/verif/properties.jsonl'):
    d=json.loads(l)
    if d['id']==pid:
        a=d['anchors']
        open(wt+'/PROPERTY.txt','w').write('%s: %s\n\n%s\n\nQuantified: %s\n\nWhy the unit tests cannot settle it: %s\n\nCode involved: %s\n' % (
            d['id'],d['title'],d['statement'],d['quantifier']['text'],d['why_tests_cant'],', '.join(a['files'])))
P
echo $wt
