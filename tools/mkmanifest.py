#!/usr/bin/env python3
"""Regenerate MANIFEST.json from the property modules present in vf/props (keeps the
manifest valid and in step with what is actually built)."""
import importlib
import json
import os
import sys

HERE = os.path.dirname(os.path.abspath(__file__))
VERIF = os.path.dirname(HERE)
sys.path.insert(0, VERIF)
sys.path.insert(0, os.path.join(VERIF, '.deps'))
sys.path.insert(0, '/repo/src')

BASELINE_CMD = ("cd /repo && /venv/bin/python -m pytest -ra -q -p no:cacheprovider --timeout=900 "
                "--continue-on-collection-errors")

NOT_BUILT = {}     # property -> reason, for anything deliberately not claimed


def main():
    props = [json.loads(l) for l in open(os.path.join(VERIF, 'properties.jsonl'))]
    checks, na = [], []
    for p in props:
        pid = p['id']
        path = os.path.join(VERIF, 'vf', 'props', pid.lower() + '.py')
        if not os.path.exists(path):
            na.append(dict(property_id=pid, reason=NOT_BUILT.get(
                pid, 'check not built yet in this revision (runtime monitoring applies; see DESIGN.md section 4)')))
            continue
        mod = importlib.import_module('vf.props.' + pid.lower())
        checks.append(dict(
            property_id=pid,
            quick_cmd='./check %s --tier quick' % pid,
            thorough_cmd='./check %s --tier thorough' % pid,
            evidence_file='evidence/%s.json' % pid,
            replay_cmd_template='./check %s --replay {path}' % pid,
            engine='vf',
            level_claimed=dict(category='exploration', text=mod.LEVEL_TEXT,
                               design_ref='DESIGN.md section 4, %s' % pid),
            level_note=mod.LEVEL_NOTE,
            technique=mod.TECHNIQUE))
    man = dict(
        version=1,
        setup_cmd='./check --setup',
        hooks=dict(guard='NUMDIFFTOOLS_VERIF',
                   enable='no source hooks are needed: checks import /repo/src from the working tree '
                          '(PYTHONPATH, python -B) and observe it with sys.monitoring on the real code '
                          'objects, wrappers around the user callable and contracts at public entry points',
                   baseline_off_cmd=BASELINE_CMD, source_commits=[], add_only=True),
        engines=[dict(name='vf', path='vf/', serves_properties=[c['property_id'] for c in checks],
                      kind_free_text='runtime monitoring: seeded hostile workloads executed against the real '
                                     'library under sys.monitoring observers, boundary recorders and contracts; '
                                     'independent oracles (exact rational arithmetic, mpmath jets, closed-form '
                                     'models) decide each observed execution; three-valued verdicts')],
        checks=checks,
        notes='Every check: exit 0 HELD, exit 1 VIOLATION (+replay file), exit 2 INCONCLUSIVE (machinery-side '
              'cause only). VERIF_SEED/VERIF_TIER honoured. Known findings: known_findings.json (read-only at run time).',
        not_applicable=na)
    with open(os.path.join(VERIF, 'MANIFEST.json'), 'w') as fh:
        json.dump(man, fh, indent=1)
    try:
        import jsonschema
        jsonschema.validate(man, json.load(open(os.path.join(VERIF, 'schemas', 'MANIFEST.schema.json'))))
        print('MANIFEST.json valid: %d checks, %d not_applicable' % (len(checks), len(na)))
    except ImportError:
        print('written (jsonschema not importable, not validated)')


if __name__ == '__main__':
    main()
