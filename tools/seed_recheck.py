#!/usr/bin/env python3
"""Re-apply every kept seeded change (seeded/<id>/patch.diff) to a scratch copy of the *current* /repo tree and re-run
the check of the property it was written against (quick tier, seeds 0 and 1).  Records the outcome in meta.json
under 'recheck' and prints a table.  usage: tools/seed_recheck.py [-j N] [-k substring]"""
import concurrent.futures as cf
import json
import os
import shutil
import subprocess
import sys

HERE = os.path.dirname(os.path.abspath(__file__))
VERIF = os.path.dirname(HERE)


def sh(cmd, **kw):
    return subprocess.run(cmd, capture_output=True, text=True, **kw)


ALSO = []


def one(sid):
    d = os.path.join(VERIF, 'seeded', sid)
    meta = json.load(open(os.path.join(d, 'meta.json')))
    prop = meta['property']
    scratch = '/var/tmp/recheck-%s' % sid
    shutil.rmtree(scratch, ignore_errors=True)
    sh(['rsync', '-a', '--exclude', '.git', '--exclude', '__pycache__', '/repo/', scratch + '/'])
    out = dict(applies=True, runs={})
    try:
        p = sh(['patch', '-p1', '-d', scratch, '-i', os.path.join(d, 'patch.diff')])
        if p.returncode != 0:
            out['applies'] = False
            out['patch_output'] = (p.stdout + p.stderr)[-300:]
            return sid, prop, out
        env = dict(os.environ)
        d1 = sh(['/venv/bin/python', '-B', os.path.join(d, 'demo.py')], env=dict(env, PYTHONPATH=scratch + '/src'), cwd='/var/tmp')
        d0 = sh(['/venv/bin/python', '-B', os.path.join(d, 'demo.py')], env=dict(env, PYTHONPATH='/repo/src'), cwd='/var/tmp')
        out['demo_exit_with_change'], out['demo_exit_without_change'] = d1.returncode, d0.returncode
        for seed in ('0', '1'):
            r = sh([os.path.join(VERIF, 'check'), prop, '--tier', 'quick', '--no-evidence'],
                   env=dict(env, VERIF_REPO=scratch, VERIF_SEED=seed))
            lines = [ln for ln in r.stdout.splitlines() if ln.startswith(('VIOLATION', 'INCONCLUSIVE'))]
            out['runs'][seed] = dict(exit=r.returncode,
                                     mechanisms=[ln.split('mechanism=')[-1][:120] if 'mechanism=' in ln else ln[:120] for ln in lines[:3]])
        for other in ALSO:        # other properties' checks, seed 0 only (reported, not part of 'caught')
            r = sh([os.path.join(VERIF, 'check'), other, '--tier', 'quick', '--no-evidence'],
                   env=dict(env, VERIF_REPO=scratch, VERIF_SEED='0'))
            lines = [ln for ln in r.stdout.splitlines() if ln.startswith(('VIOLATION', 'INCONCLUSIVE'))]
            out.setdefault('other_checks', {})[other] = dict(exit=r.returncode, mechanisms=[ln.split('mechanism=')[-1][:120] for ln in lines[:2]])
    finally:
        shutil.rmtree(scratch, ignore_errors=True)
    out['caught'] = all(v['exit'] == 1 for v in out['runs'].values()) if out['runs'] else False
    # a change whose demonstration no longer fails on the current tree (or whose patch no longer applies) has been overtaken
    # by a repair of /repo: it is kept as a record, not counted
    out['superseded'] = bool((not out['applies']) or out.get('demo_exit_with_change') == 0)
    return sid, prop, out


def main():
    args = sys.argv[1:]
    jobs, sub = 3, None
    if '-j' in args:
        jobs = int(args[args.index('-j') + 1])
    if '-k' in args:
        sub = args[args.index('-k') + 1]
    if '--also' in args:
        ALSO.extend(args[args.index('--also') + 1].split(','))
    sids = sorted(s for s in os.listdir(os.path.join(VERIF, 'seeded')) if os.path.exists(os.path.join(VERIF, 'seeded', s, 'meta.json')))
    if sub:
        sids = [s for s in sids if sub in s]
    bad = 0
    with cf.ThreadPoolExecutor(max_workers=jobs) as ex:
        for sid, prop, out in ex.map(one, sids):
            mp = os.path.join(VERIF, 'seeded', sid, 'meta.json')
            meta = json.load(open(mp))
            meta['recheck'] = out
            json.dump(meta, open(mp, 'w'), indent=1)
            status = 'CAUGHT' if out.get('caught') else ('SUPERSEDED' if out.get('superseded') else 'MISSED')
            if status == 'MISSED':
                bad += 1
            for o, v in (out.get('other_checks') or {}).items():
                print('    also %s: exit %s %s' % (o, v['exit'], v['mechanisms'][:1]))
            print('%-38s %s %-8s demo %s/%s  %s' % (sid, prop, status, out.get('demo_exit_with_change'), out.get('demo_exit_without_change'),
                                                   ' | '.join(m for v in out['runs'].values() for m in v['mechanisms'][:1])[:150]))
    print('--- %d seeded changes, %d not caught' % (len(sids), bad))
    return 1 if bad else 0


if __name__ == '__main__':
    sys.exit(main())
