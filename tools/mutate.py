#!/usr/bin/env python3
"""Self-validation by deliberate breakage (DESIGN.md section 6).

Applies one textual mutant at a time to a scratch copy of /repo under /var/tmp (never to
/repo), runs the named checks with VERIF_REPO pointing at the copy, and prints a table
mutant x check -> verdict.  Scratch copies are removed after each mutant.

usage: tools/mutate.py [-k SUBSTR] [--tier quick] [--baseline] [--props C01,C13]
Mutants are listed in tools/mutants.py as
    dict(id=..., props=[...], file='src/numdifftools/x.py', old='...', new='...')
"""
import argparse
import os
import shutil
import subprocess
import sys
import time

HERE = os.path.dirname(os.path.abspath(__file__))
VERIF = os.path.dirname(HERE)
sys.path.insert(0, HERE)


def run_check(prop, repo, tier, seed='0'):
    env = dict(os.environ, VERIF_REPO=repo, VERIF_SEED=seed)
    t0 = time.time()
    p = subprocess.run([os.path.join(VERIF, 'check'), prop, '--tier', tier, '--no-evidence'],
                       env=env, capture_output=True, text=True)
    lines = [ln for ln in p.stdout.splitlines() if ln.startswith(('VIOLATION', 'INCONCLUSIVE'))]
    return p.returncode, time.time() - t0, lines


def baseline(repo):
    """The repository's pinned baseline on the mutant: 'suite 104/104' means every stable test still passes."""
    p = subprocess.run([sys.executable, os.path.join(HERE, 'baseline.py'), repo], capture_output=True, text=True)
    first = (p.stdout.strip().splitlines() or ['?'])[0]
    return 'suite ' + first.split(':')[-1].split('stable')[0].strip()


def run_mutant(m, args):
    out = []
    props = [p for p in (args.props.split(',') if args.props else m['props']) if p]
    scratch = '/var/tmp/ndt-mut-%d-%s' % (os.getpid(), m['id'])
    shutil.rmtree(scratch, ignore_errors=True)
    subprocess.run(['rsync', '-a', '--exclude', '.git', '--exclude', '__pycache__', '/repo/', scratch + '/'], check=True)
    try:
        edits = m.get('edits') or [(m['file'], m['old'], m['new'])]
        for fname, old_, new_ in edits:
            path = os.path.join(scratch, fname)
            src = open(path).read()
            if src.count(old_) != 1:
                return ['%-40s MUTANT DOES NOT APPLY (%d matches in %s)' % (m['id'], src.count(old_), fname)], []
            open(path, 'w').write(src.replace(old_, new_))
        base = baseline(scratch) if args.baseline else ''
        rows = []
        for prop in props:
            rc, dt, lines = run_check(prop, scratch, args.tier)
            verdict = {0: 'MISSED(held)', 1: 'CAUGHT', 2: 'inconclusive'}.get(rc, 'rc=%d' % rc)
            mech = ''
            if lines:
                mech = ' | '.join(ln.split('mechanism=')[-1] if 'mechanism=' in ln else ln[:150] for ln in lines[:3])
            out.append('%-40s %-4s %-14s %5.1fs %s %s' % (m['id'], prop, verdict, dt, mech, base))
            rows.append((m['id'], prop, verdict))
        for prop in [p for p in args.others.split(',') if p]:
            rc, dt, lines = run_check(prop, scratch, args.tier)
            out.append('%-40s %-4s %-14s (unrelated, must be held)' % (
                m['id'], prop, {0: 'held', 1: 'FALSE-ALARM?', 2: 'inconclusive'}.get(rc)))
        return out, rows
    finally:
        shutil.rmtree(scratch, ignore_errors=True)


def main():
    ap = argparse.ArgumentParser()
    ap.add_argument('-k', default='')
    ap.add_argument('--tier', default='quick')
    ap.add_argument('--baseline', action='store_true', help='also run the repo test-suite on the mutant')
    ap.add_argument('--props', default='')
    ap.add_argument('--others', default='', help='comma list of unrelated checks that must stay silent')
    ap.add_argument('-j', type=int, default=1)
    args = ap.parse_args()
    from mutants import MUTANTS
    import concurrent.futures as cf
    sel = [m for m in MUTANTS if not args.k or args.k in m['id']]
    rows = []
    with cf.ThreadPoolExecutor(max_workers=args.j) as ex:
        for out, r in ex.map(lambda m: run_mutant(m, args), sel):
            for ln in out:
                print(ln)
            sys.stdout.flush()
            rows.extend(r)
    missed = [r for r in rows if r[2] != 'CAUGHT']
    print('--- %d runs, %d not caught' % (len(rows), len(missed)))


if __name__ == '__main__':
    main()
