#!/usr/bin/env python3
"""Calibration helper for C01/C02: runs cases in-process (many worker processes), dumps every asserted element with
its ratios so that outliers can be inspected and thresholds derived.  usage: calib01.py NCASES SEED OUT.jsonl"""
import json, os, sys, multiprocessing as mp_
sys.path[:0] = ['/verif', '/verif/.deps', os.environ.get('VERIF_REPO', '/repo') + '/src']
os.environ['VERIF_CALIBRATE'] = '1'
os.environ.setdefault('OMP_NUM_THREADS', '1')
import numpy as np


def work(args):
    seed, shard, n = args
    import warnings; warnings.simplefilter('ignore'); np.seterr(all='ignore')
    from vf.ctx import Ctx
    from vf.monitor import Monitor
    from vf.props import _deriv as D, c01
    from vf import expr as X
    ctx = Ctx('C01', 'quick', seed, shard, 16)
    mon = Monitor(); c01.setup(ctx, mon); mon.start()
    rng = np.random.Generator(np.random.PCG64([seed, shard, 0xCA1]))
    out = []
    made = 0
    k = shard
    ncells = sum((D.NMAX[m] + 1) * 8 for m in D.METHODS)
    while made < n:
        if k < ncells * 2:
            method, nn, order = D.draw_config(rng, k); k += 16
        else:
            method, nn, order = D.draw_config(rng)
        if nn == 0: continue
        case = D.make_case(rng, method, nn, order, complex_valued=(method in ('central','forward','backward') and rng.random() < 0.06))
        if case is None: continue
        made += 1
        res = D.run_case(case, ctx)
        if res['outcome'] != 'ok':
            out.append(dict(kind='raised', exc=repr(res['exc'])[:200], prog=X.to_str(res['tree']), method=method, n=nn)); continue
        for e, x_e, v, est_e, fs_e in D.elements(case, res):
            m = D.oracle_for_element(case, res, e, x_e, v, est_e, fs_e)
            if not m.in_scope:
                out.append(dict(kind='skip', why=m.skip, method=method, n=nn)); continue
            out.append(dict(kind='ok', method=method, n=nn, order=order, prog=X.to_str(res['tree']), x=x_e,
                            step=case['step'], err=m.err, S=m.S, E=m.E, P=m.P, lam=m.lam, cbv=m.chosen_beyond_validity, ratio=m.err / m.E, est=est_e, floor=m.floor,
                            fstep=fs_e, W=m.W, nsteps=m.nsteps, rv=m.rho_valid, cf=m.cancel_free, cn=m.cn_abs,
                            trunc=getattr(m, 'trunc', None), full=getattr(m, 'full_window', None),
                            cplx=case['cplx'], value=repr(v)))
    mon.stop()
    return out


if __name__ == '__main__':
    n, seed, outp = int(sys.argv[1]), int(sys.argv[2]), sys.argv[3]
    with mp_.Pool(16) as pool:
        res = pool.map(work, [(seed, s, n // 16) for s in range(16)])
    with open(outp, 'w') as fh:
        for r in res:
            for row in r:
                fh.write(json.dumps(row, default=str) + '\n')
    print('written', sum(len(r) for r in res))
