#!/usr/bin/env python3
"""Run the repository's pinned baseline (guard off - there are no hooks) and compare with
/root/.vp/BASELINE.json: every stable_pass test must still pass.  usage: tools/baseline.py [repo]"""
import json, os, subprocess, sys, tempfile
import xml.etree.ElementTree as ET
repo = sys.argv[1] if len(sys.argv) > 1 else '/repo'
base = json.load(open('/root/.vp/BASELINE.json'))
out = tempfile.mktemp(suffix='.xml', dir='/var/tmp')
cmd = base['cmd'].replace('cd /repo', 'cd ' + repo).replace('<file>', out)
env = dict(os.environ)
env.pop('PYTHONPATH', None)
p = subprocess.run(cmd, shell=True, capture_output=True, text=True, env=env)
tree = ET.parse(out)
os.unlink(out)
passed = set()
for tc in tree.iter('testcase'):
    bad = any(ch.tag in ('failure', 'error', 'skipped') for ch in tc)
    if not bad:
        passed.add('%s::%s' % (tc.get('classname'), tc.get('name')))
missing = [t for t in base['stable_pass'] if t not in passed]
print('baseline: %d/%d stable tests pass; %d passed in total' % (len(base['stable_pass']) - len(missing), len(base['stable_pass']), len(passed)))
for t in missing:
    print('  NO LONGER PASSING:', t)
sys.exit(1 if missing else 0)
