#!/usr/bin/env python3
"""Run the repository's pinned baseline (guard off - there are no hooks) and compare with
/root/.vp/BASELINE.json: every stable_pass test must still pass.  usage: tools/baseline.py [repo]"""
import json, os, subprocess, sys, tempfile
import xml.etree.ElementTree as ET
repo = sys.argv[1] if len(sys.argv) > 1 else '/repo'
base = json.load(open('/root/.vp/BASELINE.json'))
out = tempfile.mktemp(suffix='.xml', dir='/var/tmp')
cmd = base['cmd'].replace('cd /repo', 'cd ' + repo).replace('<file>', out)
env = dict(os.environ)
env.pop('PYTHONPATH', None)
# the suite contains randomised (hypothesis) tests: a failing random example would be stored in <repo>/.hypothesis/examples and
# replayed on every later run, turning a one-off random find into a permanent failure of the pinned baseline.  The example
# database is therefore put back exactly as it was found.
import shutil
hyp = os.path.join(repo, '.hypothesis', 'examples')
keep = tempfile.mkdtemp(dir='/var/tmp') if os.path.isdir(hyp) else None
if keep:
    shutil.copytree(hyp, os.path.join(keep, 'examples'))
try:
    p = subprocess.run(cmd, shell=True, capture_output=True, text=True, env=env)
finally:
    if keep:
        shutil.rmtree(hyp, ignore_errors=True)
        shutil.copytree(os.path.join(keep, 'examples'), hyp)
        shutil.rmtree(keep, ignore_errors=True)
tree = ET.parse(out)
os.unlink(out)
passed = set()
for tc in tree.iter('testcase'):
    bad = any(ch.tag in ('failure', 'error', 'skipped') for ch in tc)
    if not bad:
        passed.add('%s::%s' % (tc.get('classname'), tc.get('name')))
missing = [t for t in base['stable_pass'] if t not in passed]
print('baseline: %d/%d stable tests pass; %d passed in total' % (len(base['stable_pass']) - len(missing), len(base['stable_pass']), len(passed)))
for t in missing:
    print('  NO LONGER PASSING:', t)
sys.exit(1 if missing else 0)
