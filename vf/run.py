"""Runner: shards a property's workload over worker interpreters, merges what the
monitors observed, decides the three-valued verdict, writes evidence and replay files.

exit 0  HELD          every monitor evaluated, all anchors reached, no unlisted rejection
exit 1  VIOLATION     an oracle rejected an execution that known_findings.json does not list
exit 2  INCONCLUSIVE  machinery-side cause only (worker died, watchdog, anchor never reached,
                      deciding monitor evaluated 0 times, harness error)
"""
import argparse
import concurrent.futures as cf
import hashlib
import importlib
import json
import os
import shutil
import subprocess
import sys
import time

HOME = os.environ.get('VERIF_HOME', os.path.dirname(os.path.dirname(os.path.abspath(__file__))))
REPO = os.environ.get('VERIF_REPO', '/repo')


def load_known(prop):
    path = os.path.join(HOME, 'known_findings.json')
    try:
        entries = json.load(open(path))['findings']
    except FileNotFoundError:
        return {}, []
    known = {e['key']: e for e in entries if e['property'] == prop and e.get('status') == 'open'}
    fixed = [e for e in entries if e['property'] == prop and e.get('status') == 'fixed']
    return known, fixed


def sanitize(obj):
    """Evidence must be strict JSON: no NaN/Infinity tokens."""
    if isinstance(obj, float):
        if obj != obj or obj in (float('inf'), float('-inf')):
            return repr(obj)
        return obj
    if isinstance(obj, dict):
        return {k: sanitize(v) for k, v in obj.items()}
    if isinstance(obj, (list, tuple)):
        return [sanitize(v) for v in obj]
    return obj


def run_worker(prop, tier, seed, shard, nshards, out, timeout, replay=None):
    cmd = [sys.executable, '-B', '-X', 'faulthandler', '-m', 'vf.worker', prop, tier, str(seed),
           str(shard), str(nshards), out]
    if replay:
        cmd.append(replay)
    t0 = time.time()
    try:
        p = subprocess.run(cmd, timeout=timeout, capture_output=True, text=True, cwd=HOME)
    except subprocess.TimeoutExpired:
        return dict(shard=shard, failed='watchdog fired after %ds' % timeout)
    if p.returncode != 0 or not os.path.exists(out):
        return dict(shard=shard, failed='worker exit %s: %s' % (p.returncode, (p.stderr or '')[-1500:]))
    res = json.load(open(out))
    res['proc_wall_s'] = time.time() - t0
    return res


def main(argv=None):
    ap = argparse.ArgumentParser()
    ap.add_argument('prop')
    ap.add_argument('--tier', default=os.environ.get('VERIF_TIER') or 'quick',
                    choices=['quick', 'thorough'])
    ap.add_argument('--replay')
    ap.add_argument('--jobs', type=int, default=int(os.environ.get('VERIF_JOBS', '16')))
    ap.add_argument('--no-evidence', action='store_true')
    args = ap.parse_args(argv)
    prop = args.prop.upper()
    try:
        seed = int(os.environ.get('VERIF_SEED') or 0)
    except ValueError:
        seed = 0
    mod = importlib.import_module('vf.props.' + prop.lower())
    tier = args.tier
    nshards = 1 if args.replay else mod.NSHARDS[tier]
    timeout = getattr(mod, 'TIMEOUT', dict(quick=900, thorough=7200))[tier]
    work = os.path.join(HOME, '.work', '%s-%s-%d-%d' % (prop, tier, seed, os.getpid()))
    os.makedirs(work, exist_ok=True)
    t0 = time.time()
    results = []
    with cf.ThreadPoolExecutor(max_workers=max(1, min(args.jobs, nshards))) as ex:
        futs = [ex.submit(run_worker, prop, tier, seed, s, nshards,
                          os.path.join(work, 'shard%d.json' % s), timeout, args.replay)
                for s in range(nshards)]
        for f in futs:
            results.append(f.result())
    shutil.rmtree(work, ignore_errors=True)
    wall = time.time() - t0

    # ---- merge --------------------------------------------------------------------
    inconclusive = []
    counters, maxima, keys, samples, witnesses, by_key, monitor, notes = {}, {}, set(), [], [], {}, {}, []
    evaluations = 0
    for r in results:
        if 'failed' in r:
            inconclusive.append('shard %s: %s' % (r['shard'], r['failed']))
            continue
        evaluations += r['evaluations']
        for k, v in r['counters'].items():
            counters[k] = counters.get(k, 0) + v
        for k, v in r['maxima'].items():
            if k not in maxima or v[0] > maxima[k][0]:
                maxima[k] = v
        keys.update(r['keys'])
        samples.extend(r['samples'][:2])
        witnesses.extend(r['witnesses'])
        for k, v in r['by_key'].items():
            by_key[k] = by_key.get(k, 0) + v
        for name, st in r['monitor'].items():
            m = monitor.setdefault(name, dict(calls=0, returns=0, yields=0, raises=0,
                                              lines_hit=0, lines_total=st['lines_total']))
            for fld in ('calls', 'returns', 'yields', 'raises'):
                m[fld] += st[fld]
            m['lines_hit'] = max(m['lines_hit'], st['lines_hit'])
        for e in r['monitor_errors']:
            inconclusive.append('monitor callback error: ' + e[-400:])
        for e in r['unresolved']:
            # (functions that are only watched for reach / line coverage and decide nothing may be refactored away)
            if any(e == a or e.startswith(a) for a in getattr(mod, 'ALSO_WATCHED', [])):
                if ('optional watch no longer resolves: ' + e) not in notes:
                    notes.append('optional watch no longer resolves: ' + e)
                continue
            inconclusive.append('anchor moved (no longer resolves): ' + e)
        for e in r['harness_errors']:
            inconclusive.append('harness error on %s: %s' % (e['case'][:200], e['tb'][-600:]))
        for n in r['notes']:
            if n not in notes:
                notes.append(n)

    if not args.replay:
        for name in getattr(mod, 'ANCHORS', []):
            if monitor.get(name, {}).get('calls', 0) == 0:
                inconclusive.append('anchored function never entered: ' + name)
        for name, minimum in getattr(mod, 'MIN_COUNTERS', {}).get(tier, {}).items():
            if counters.get(name, 0) < minimum:
                inconclusive.append('deciding monitor %r evaluated %d times (< %d)'
                                    % (name, counters.get(name, 0), minimum))
        if evaluations == 0:
            inconclusive.append('no case executed')
        extra = getattr(mod, 'inconclusive_reasons', None)
        if extra is not None and not inconclusive:
            inconclusive.extend(extra(counters, monitor, tier))

    # ---- classify ------------------------------------------------------------------
    known, fixed = load_known(prop)
    known_hit, violations = {}, {}
    for key, n in by_key.items():
        (known_hit if key in known else violations)[key] = n
    # rate caps: a listed finding describes how often the unchanged library is fooled under a hostile workload; a
    # breakage that multiplies that frequency is a different violation even though every single witness looks alike
    for key, (den_counter, cap, min_den) in getattr(mod, 'RATE_CAPS', {}).items():
        den = counters.get(den_counter, 0)
        if key in known_hit and den >= min_den and known_hit[key] > cap * den:
            violations['rate-exceeded:%s(%d of %d %s, cap %.0f%%)' % (key, known_hit[key], den, den_counter, 100 * cap)] = known_hit[key]
    lines = []
    for key, n in sorted(known_hit.items()):
        lines.append('KNOWN-FINDING: property=%s %s [%s; %d executions this run]'
                     % (prop, known[key]['what'], key, n))
    dump = os.environ.get('VERIF_DUMP_WITNESSES')
    if dump:       # (tooling: every kept witness, listed findings included, as replayable files)
        os.makedirs(dump, exist_ok=True)
        seen = {}
        for w in witnesses:
            seen[w['key']] = seen.get(w['key'], 0) + 1
            with open(os.path.join(dump, '%s-%s-%d.json' % (prop, w['key'].replace(':', '_')[:60], seen[w['key']])), 'w') as fh:
                json.dump(w, fh, indent=1)
    replay_paths = []
    if violations:
        os.makedirs(os.path.join(HOME, 'replays'), exist_ok=True)
        for key in sorted(violations)[:10]:
            base_key = key.split(':', 1)[1].split('(')[0] if key.startswith('rate-exceeded:') else key
            wit = next((w for w in witnesses if w['key'] == base_key), None)
            blob = json.dumps(wit, sort_keys=True)
            path = os.path.join(HOME, 'replays', '%s-%s.json'
                                % (prop, hashlib.sha1(blob.encode()).hexdigest()[:12]))
            with open(path, 'w') as fh:
                json.dump(wit, fh, indent=1)
            replay_paths.append((key, path, violations[key]))

    # ---- evidence ------------------------------------------------------------------
    if not args.replay and not args.no_evidence:
        cov = dict(evaluations=int(evaluations), distinct_nontrivial=len(keys),
                   rule=mod.RULE, samples=samples[:8],
                   exhaustive=bool(getattr(mod, 'EXHAUSTIVE', {}).get(tier, False))
                   if isinstance(getattr(mod, 'EXHAUSTIVE', None), dict) else False,
                   counters=dict(sorted(counters.items())),
                   worst_observed_ratio_vs_threshold=maxima,
                   monitor_events=monitor,
                   known_findings_matched={k: v for k, v in known_hit.items()},
                   known_finding_examples={k: next((dict(case=w.get('case'), observed=w.get('observed'), expected=w.get('expected'))
                                                    for w in witnesses if w['key'] == k), None) for k in known_hit},
                   unlisted_rejections={k: v for k, v in violations.items()},
                   inconclusive_reasons=inconclusive[:10],
                   verdict=('violated' if violations else 'inconclusive' if inconclusive else 'held'),
                   shards=nshards, notes=notes, repo=REPO)
        if getattr(mod, 'EXHAUSTIVE_NOTE', None):
            cov['exhaustive_part'] = mod.EXHAUSTIVE_NOTE
        ev = dict(property_id=prop, tier=tier, seed=seed, level='exploration', coverage=cov,
                  assumptions=list(getattr(mod, 'ASSUMPTIONS', [])), wall_s=round(wall, 2),
                  violations=int(sum(violations.values())))
        ev = sanitize(ev)
        try:
            import jsonschema
            schema = json.load(open(os.path.join(HOME, 'schemas', 'EVIDENCE.schema.json')))
            jsonschema.validate(ev, schema)
        except ImportError:
            pass
        except Exception as exc:
            inconclusive.append('evidence does not validate: %s' % str(exc)[:300])
        os.makedirs(os.path.join(HOME, 'evidence'), exist_ok=True)
        with open(os.path.join(HOME, 'evidence', prop + '.json'), 'w') as fh:
            json.dump(ev, fh, indent=1, sort_keys=True, allow_nan=False)

    # ---- verdict -------------------------------------------------------------------
    for ln in lines:
        print(ln)
    summary = 'evaluations=%d distinct_nontrivial=%d wall=%.1fs' % (evaluations, len(keys), wall)
    if violations:
        for key, path, n in replay_paths:
            print('VIOLATION property=%s replay=%s mechanism=%s executions=%d' % (prop, path, key, n))
        print('VIOLATED property=%s %s' % (prop, summary))
        return 1
    if args.replay:
        print('REPLAY property=%s: the recorded case is no longer rejected%s'
              % (prop, ' (but matched a known finding)' if known_hit else ''))
        return 0
    if inconclusive:
        for reason in inconclusive[:8]:
            print('INCONCLUSIVE property=%s reason=%s' % (prop, reason.replace('\n', ' | ')))
        return 2
    print('HELD property=%s %s' % (prop, summary))
    return 0


if __name__ == '__main__':
    sys.exit(main())
