"""Per-shard collection context: counters, distinct non-trivial keys, samples, maxima,
rejections (witnesses).  Everything in it is JSON-serialisable through `to_json`."""
import hashlib
import json
import math

import numpy as np

import os as _os
MAX_WITNESSES_PER_KEY = int(_os.environ.get("VERIF_WITNESSES", "3"))
MAX_SAMPLES_PER_SHARD = 6


def jsonable(obj):
    """Convert numpy / complex / non-finite values to JSON-safe structures (lossless for
    finite floats: Python's json uses repr)."""
    if isinstance(obj, dict):
        return {str(k): jsonable(v) for k, v in obj.items()}
    if isinstance(obj, (list, tuple, set, frozenset)):
        return [jsonable(v) for v in obj]
    if isinstance(obj, np.ndarray):
        return jsonable(obj.tolist())
    if isinstance(obj, (np.bool_, bool)):
        return bool(obj)
    if isinstance(obj, (np.integer,)):
        return int(obj)
    if isinstance(obj, (np.floating, float)):
        v = float(obj)
        if math.isfinite(v):
            return v
        return {"__float__": repr(v)}
    if isinstance(obj, (np.complexfloating, complex)):
        c = complex(obj)
        return {"__complex__": [jsonable(c.real), jsonable(c.imag)]}
    if obj is None or isinstance(obj, (int, str)):
        return obj
    if hasattr(obj, '_asdict'):
        return jsonable(obj._asdict())
    return repr(obj)


def unjson(obj):
    """Inverse of jsonable for the tagged values."""
    if isinstance(obj, dict):
        if "__float__" in obj and len(obj) == 1:
            return float(obj["__float__"])
        if "__complex__" in obj and len(obj) == 1:
            re, im = obj["__complex__"]
            return complex(unjson(re), unjson(im))
        return {k: unjson(v) for k, v in obj.items()}
    if isinstance(obj, list):
        return [unjson(v) for v in obj]
    return obj


class Ctx(object):
    def __init__(self, prop, tier, seed, shard=0, nshards=1):
        self.prop = prop
        self.tier = tier
        self.seed = seed
        self.shard = shard
        self.nshards = nshards
        self.counters = {}
        self.maxima = {}
        self.keys = set()
        self.samples = []
        self.witnesses = []
        self.by_key = {}            # classification key -> number of rejections
        self.classifier = None
        self.n_rejections = 0
        self.evaluations = 0
        self.notes = []
        self.current_case = None

    # --- counters -------------------------------------------------------------------
    def count(self, name, k=1):
        self.counters[name] = self.counters.get(name, 0) + k

    def maximum(self, name, value, info=None):
        value = float(value)
        if not math.isfinite(value):
            return
        cur = self.maxima.get(name)
        if cur is None or value > cur[0]:
            self.maxima[name] = [value, jsonable(info)]

    def nontrivial(self, key):
        """Register a distinct non-trivial case key (any hashable / printable)."""
        s = key if isinstance(key, str) else json.dumps(jsonable(key), sort_keys=True)
        self.keys.add(hashlib.sha1(s.encode()).hexdigest()[:12])

    def sample(self, obj):
        if len(self.samples) < MAX_SAMPLES_PER_SHARD:
            self.samples.append(jsonable(obj))

    def note(self, text):
        if text not in self.notes and len(self.notes) < 20:
            self.notes.append(text)

    # --- rejections -----------------------------------------------------------------
    def reject(self, check, case=None, observed=None, expected=None, detail=None, **facts):
        """An oracle rejected an observed execution.  `check` names the oracle clause,
        `facts` are mechanism facts the classifiers may look at."""
        self.n_rejections += 1
        self.count('rejected:' + check)
        wit = jsonable(dict(
            property=self.prop, check=check,
            case=case if case is not None else self.current_case,
            observed=observed, expected=expected, detail=detail, facts=facts,
            seed=self.seed, shard=self.shard, tier=self.tier))
        key = None
        if self.classifier is not None:
            try:
                key = self.classifier(wit)
            except Exception:      # a broken classifier must never hide a rejection
                key = None
        if key is None:
            key = 'unclassified:' + check
        wit['key'] = key
        n = self.by_key.get(key, 0)
        self.by_key[key] = n + 1
        if n < MAX_WITNESSES_PER_KEY:
            self.witnesses.append(wit)

    def to_json(self):
        return dict(prop=self.prop, tier=self.tier, seed=self.seed, shard=self.shard,
                    counters=self.counters, maxima=self.maxima, keys=sorted(self.keys),
                    samples=self.samples, witnesses=self.witnesses, by_key=self.by_key,
                    n_rejections=self.n_rejections, evaluations=self.evaluations,
                    notes=self.notes)
