"""One shard of one property's workload, in its own interpreter.

usage: python -m vf.worker PROP TIER SEED SHARD NSHARDS OUT.json [REPLAY.json]
"""
import faulthandler
import importlib
import signal
import json
import os
import sys
import time
import traceback
import warnings

import numpy as np

from vf.ctx import Ctx, unjson
from vf.monitor import Monitor


def main(argv):
    prop, tier, seed, shard, nshards, out = argv[:6]
    replay = argv[6] if len(argv) > 6 else None
    seed, shard, nshards = int(seed), int(shard), int(nshards)
    faulthandler.enable()
    try:    # die with the runner (PR_SET_PDEATHSIG): a stopped check leaves no orphaned shards behind
        import ctypes
        ctypes.CDLL('libc.so.6', use_errno=True).prctl(1, signal.SIGKILL)
    except Exception:
        pass
    warnings.simplefilter('ignore')
    np.seterr(all='ignore')
    mod = importlib.import_module('vf.props.' + prop.lower())
    ctx = Ctx(prop, tier, seed, shard, nshards)
    ctx.classifier = getattr(mod, 'classify', None)
    mon = Monitor()
    t0 = time.time()
    harness_errors = []
    try:
        mod.setup(ctx, mon)
        mon.start()
        if replay:
            wit = unjson(json.load(open(replay)))
            cases = [wit['case']]
        else:
            rng = np.random.Generator(np.random.PCG64([seed, shard, 0xC0DE]))
            cases = mod.cases(rng, tier, shard, nshards)
        case_timeout = int(getattr(mod, 'CASE_TIMEOUT', 120))

        class _CaseTimeout(BaseException):
            pass

        def _on_alarm(signum, frame):
            raise _CaseTimeout()
        signal.signal(signal.SIGALRM, _on_alarm)
        for case in cases:
            ctx.current_case = case
            ctx.evaluations += 1
            signal.alarm(case_timeout)
            try:
                mod.run_case(case, ctx)
            except _CaseTimeout:
                # a generous per-case watchdog (the oracle, e.g. a 50-digit evaluation at an absurd argument, or the
                # library got stuck): the case carries no verdict
                ctx.count('case_watchdog_fired(no verdict)')
                if len(harness_errors) < 5 and ctx.counters.get('case_watchdog_fired(no verdict)', 0) > max(5, ctx.evaluations // 100):
                    harness_errors.append(dict(case=repr(case)[:600], tb='per-case watchdog fired on more than 1 % of the cases'))
            except Exception:
                ctx.count('harness_error')
                if len(harness_errors) < 5:
                    harness_errors.append(dict(case=repr(case)[:600],
                                               tb=traceback.format_exc(limit=8)))
            finally:
                signal.alarm(0)
        post = getattr(mod, 'post', None)
        if post is not None:
            post(ctx)
    except Exception:
        harness_errors.append(dict(case='<setup/generator>', tb=traceback.format_exc(limit=10)))
        ctx.count('harness_error')
    finally:
        mon.stop()
    res = ctx.to_json()
    res['monitor'] = mon.stats()
    res['monitor_errors'] = mon.errors
    res['unresolved'] = mon.unresolved
    res['harness_errors'] = harness_errors
    res['wall_s'] = time.time() - t0
    tmp = out + '.tmp'
    with open(tmp, 'w') as fh:
        json.dump(res, fh)
    os.replace(tmp, out)
    return 0


if __name__ == '__main__':
    sys.exit(main(sys.argv[1:]))
