"""Boundary recorder: wraps the user callable handed to the library and records, *before*
invoking it, every argument it receives (a private copy plus the object identity and a
byte hash of the array actually passed), and after the call the shape/dtype of the result.
It is recorded at the boundary of the system, not inside it."""
import hashlib

import numpy as np


def _is_bicomplex(z):
    return hasattr(z, 'z1') and hasattr(z, 'z2')


def _digest(a):
    a = np.ascontiguousarray(a)
    return hashlib.blake2b(a.tobytes(), digest_size=8).hexdigest() + str(a.shape) + str(a.dtype)


class Call(object):
    __slots__ = ('seq', 'kind', 'z1', 'z2', 'ref', 'digest', 'args', 'kwds', 'out_shape', 'out_dtype',
                 'out_finite', 'raised', 'value', 'finite_mask')


class Recorder(object):
    def __init__(self, f, keep_values=False):
        self.f = f
        self.calls = []
        self.keep_values = keep_values

    def reset(self):
        self.calls = []

    def __call__(self, z, *args, **kwds):
        c = Call()
        c.seq = len(self.calls)
        if _is_bicomplex(z):
            c.kind = 'bicomplex'
            c.z1 = np.array(z.z1, copy=True)
            c.z2 = np.array(z.z2, copy=True)
            c.ref = (z.z1, z.z2)
            c.digest = _digest(z.z1) + _digest(z.z2)
        else:
            arr = np.asarray(z)
            c.kind = 'complex' if np.iscomplexobj(arr) else 'real'
            c.z1 = np.array(arr, copy=True)
            c.z2 = None
            c.ref = (z,)
            c.digest = _digest(arr)
        c.args, c.kwds = args, kwds
        c.out_shape = c.out_dtype = c.out_finite = c.value = c.finite_mask = None
        c.raised = None
        self.calls.append(c)
        try:
            out = self.f(z, *args, **kwds)
        except Exception as exc:
            c.raised = repr(exc)
            raise
        try:
            if _is_bicomplex(out):
                c.out_shape, c.out_dtype = np.shape(out.z1), 'bicomplex'
                c.out_finite = bool(np.all(np.isfinite(out.z1)) and np.all(np.isfinite(out.z2)))
                if np.size(out.z1) <= 64:
                    c.finite_mask = np.isfinite(out.z1) & np.isfinite(out.z2)
            else:
                o = np.asarray(out)
                c.out_shape, c.out_dtype = o.shape, str(o.dtype)
                if o.dtype != object:
                    c.out_finite = bool(np.all(np.isfinite(o)))
                    if o.size <= 64:
                        c.finite_mask = np.isfinite(o)
                if self.keep_values and o.dtype != object:
                    c.value = np.array(o, copy=True)
        except Exception:
            pass
        return out

    def mutated(self):
        """Indices of calls whose passed array no longer has the bytes it had at hand-over."""
        bad = []
        for c in self.calls:
            try:
                if c.kind == 'bicomplex':
                    now = _digest(c.ref[0]) + _digest(c.ref[1])
                else:
                    now = _digest(np.asarray(c.ref[0]))
            except Exception:
                continue
            if now != c.digest:
                bad.append(c.seq)
        return bad
