"""Expression programs: random trees over the operator set of C01, compiled three ways from
the same tree: (1) a numpy callable (also accepts numdifftools' Bicomplex through ufunc
dispatch), (2) direct mpmath evaluation (real or complex), (3) jets (vf.oracle.jets).

A tree is a nested tuple:
  ('x',) | ('c', float) | ('add'|'sub'|'mul'|'div', a, b) | ('powi', a, int) | ('powr', a, float)
  | ('fn', name, a)
"""
import math

import numpy as np

UNARY = ['exp', 'log', 'sqrt', 'sin', 'cos', 'tan', 'sinh', 'cosh', 'tanh', 'arctan', 'arcsin',
         'arcsinh', 'arctanh', 'expm1', 'log1p']
MP_NAME = dict(exp='exp', log='log', sqrt='sqrt', sin='sin', cos='cos', tan='tan', sinh='sinh', cosh='cosh',
               tanh='tanh', arctan='atan', arcsin='asin', arcsinh='asinh', arctanh='atanh', expm1='expm1',
               log1p='log1p', arccos='acos', arccosh='acosh', cot='cot', sec='sec', csc='csc', coth='coth',
               sech='sech', csch='csch', log2=None, log10='log10', exp2=None)


def to_str(t):
    k = t[0]
    if k == 'x':
        return 'x'
    if k == 'c':
        v = t[1]
        return repr(float(v)) if v >= 0 else '(%r)' % float(v)
    if k == 'ci':
        return '(%rj)' % float(t[1])
    if k in ('add', 'sub', 'mul', 'div'):
        op = dict(add='+', sub='-', mul='*', div='/')[k]
        return '(%s %s %s)' % (to_str(t[1]), op, to_str(t[2]))
    if k == 'powi':
        return '(%s ** %d)' % (to_str(t[1]), t[2])
    if k == 'powr':
        return '(%s ** %r)' % (to_str(t[1]), float(t[2]))
    if k == 'fn':
        return 'np.%s(%s)' % (t[1], to_str(t[2]))
    raise ValueError(t)


def from_json(obj):
    if isinstance(obj, (list, tuple)):
        return tuple(from_json(v) if isinstance(v, (list, tuple)) else v for v in obj)
    return obj


def compile_np(t):
    src = to_str(t)
    return eval('lambda x: ' + src, {'np': np})


def nodes(t):
    yield t
    for c in t[1:]:
        if isinstance(c, tuple):
            for n in nodes(c):
                yield n


def operators(t):
    out = set()
    for n in nodes(t):
        if n[0] == 'fn':
            out.add(n[1])
        elif n[0] in ('powi', 'powr'):
            out.add(n[0] + ('_negbase' if False else ''))
        elif n[0] not in ('x', 'c'):
            out.add(n[0])
    return out


def contains_x(t):
    return any(n[0] == 'x' for n in nodes(t))


# ------------------------------------------------------------------------------ mpmath
def eval_mp(t, x, mp):
    """Direct evaluation with mpmath (x: mpf or mpc).  Raises on domain errors."""
    k = t[0]
    if k == 'x':
        return x
    if k == 'c':
        return mp.mpf(t[1])
    if k == 'ci':
        return mp.mpc(0, t[1])
    if k == 'add':
        return eval_mp(t[1], x, mp) + eval_mp(t[2], x, mp)
    if k == 'sub':
        return eval_mp(t[1], x, mp) - eval_mp(t[2], x, mp)
    if k == 'mul':
        return eval_mp(t[1], x, mp) * eval_mp(t[2], x, mp)
    if k == 'div':
        return eval_mp(t[1], x, mp) / eval_mp(t[2], x, mp)
    if k == 'powi':
        return eval_mp(t[1], x, mp) ** int(t[2])
    if k == 'powr':
        return mp.power(eval_mp(t[1], x, mp), mp.mpf(t[2]))
    if k == 'fn':
        a = eval_mp(t[2], x, mp)
        name = t[1]
        if name == 'log2':
            return mp.log(a) / mp.log(2)
        if name == 'exp2':
            return mp.exp(a * mp.log(2))
        if name == 'expm1':
            return mp.exp(a) - 1 if abs(a) > mp.mpf('1e-5') else mp.expm1(a)
        if name == 'log1p':
            return mp.log(1 + a)
        if name in ('sin', 'cos', 'tan', 'cot', 'sec', 'csc') and abs(a) > 1e8:
            raise OverflowError('trigonometric argument too large for a meaningful reference value')
        if name in ('exp', 'sinh', 'cosh', 'tanh', 'expm1', 'exp2') and abs(mp.re(a)) > 1e8:
            raise OverflowError('exponential argument too large')
        return getattr(mp, MP_NAME[name])(a)
    raise ValueError(t)


def eval_mp_perturbed(t, x, mp, target, factor, _ctr=None):
    """As eval_mp, but the value of the node with preorder index `target` is multiplied by `factor`
    (used to measure the sensitivity of the result to a rounding error committed at that node)."""
    if _ctr is None:
        _ctr = [0]
    idx = _ctr[0]
    _ctr[0] += 1
    k = t[0]
    if k == 'x':
        v = x
    elif k == 'c':
        v = mp.mpf(t[1])
    elif k == 'ci':
        v = mp.mpc(0, t[1])
    elif k in ('add', 'sub', 'mul', 'div'):
        a = eval_mp_perturbed(t[1], x, mp, target, factor, _ctr)
        b = eval_mp_perturbed(t[2], x, mp, target, factor, _ctr)
        v = a + b if k == 'add' else a - b if k == 'sub' else a * b if k == 'mul' else a / b
    elif k == 'powi':
        v = eval_mp_perturbed(t[1], x, mp, target, factor, _ctr) ** int(t[2])
    elif k == 'powr':
        v = mp.power(eval_mp_perturbed(t[1], x, mp, target, factor, _ctr), mp.mpf(t[2]))
    else:
        a = eval_mp_perturbed(t[2], x, mp, target, factor, _ctr)
        v = eval_mp(('fn', t[1], ('x',)), a, mp)
    if idx == target:
        v = v * factor
    return v


def n_nodes(t):
    return sum(1 for _ in nodes(t))


# ------------------------------------------------------------------------------ validity scan
class ScanResult(object):
    __slots__ = ('ok', 'reason', 'maxabs', 'minabs')

    def __init__(self, ok, reason=None, maxabs=0.0, minabs=math.inf):
        self.ok, self.reason, self.maxabs, self.minabs = ok, reason, maxabs, minabs


def scan(t, pts):
    """Node-wise scan of the tree on an array of (real or complex) points.  ok=False if some
    node leaves the region where the program is real-analytic with the principal branches:
    a denominator or a log/sqrt/real-power argument whose real part is <= 0 (or tiny), an
    arcsin/arctanh argument with |Re| >= 1, cos under tan near 0, an intermediate above 1e100,
    an exp-like argument above 700, or any non-finite value."""
    st = dict(ok=True, reason=None, maxabs=0.0, minabs=math.inf)
    pts = np.asarray(pts, dtype=complex)

    def bad(reason):
        if st['ok']:
            st['ok'], st['reason'] = False, reason

    def ev(n):
        k = n[0]
        if k == 'x':
            return pts
        if k == 'c':
            return np.full(pts.shape, complex(n[1]))
        if k == 'ci':
            return np.full(pts.shape, complex(0, n[1]))
        with np.errstate(all='ignore'):
            if k in ('add', 'sub', 'mul', 'div'):
                a, b = ev(n[1]), ev(n[2])
                if k == 'div':
                    # the denominator vanishes, comes close to zero relative to its own range, or (being real)
                    # changes sign along the scanned points
                    absb = np.abs(b)
                    if np.any(absb < 1e-8 * (1 + np.abs(a))) or np.min(absb) < 1e-3 * np.max(absb) or \
                            (np.all(np.abs(b.imag) <= 1e-300) and np.min(b.real) < 0 < np.max(b.real)):
                        bad('denominator changes sign or vanishes')
                    v = a / b
                elif k == 'add':
                    v = a + b
                elif k == 'sub':
                    v = a - b
                else:
                    v = a * b
            elif k == 'powi':
                a = ev(n[1])
                if n[2] < 0 and (np.any(np.abs(a) < 1e-8) or np.min(np.abs(a)) < 1e-3 * np.max(np.abs(a)) or
                                 (np.all(np.abs(a.imag) <= 1e-300) and np.min(a.real) < 0 < np.max(a.real))):
                    bad('negative integer power of a base that vanishes')
                v = a ** int(n[2])
            elif k == 'powr':
                a = ev(n[1])
                if np.any(a.real <= 1e-8 * (1 + np.abs(a))):
                    bad('real power of a base with non-positive real part')
                v = a ** float(n[2])
            else:
                name = n[1]
                a = ev(n[2])
                if name in ('log', 'sqrt') and np.any(a.real <= 1e-8 * (1 + np.abs(a))):
                    bad('%s of an argument with non-positive real part' % name)
                if name == 'log1p' and np.any((1 + a).real <= 1e-8):
                    bad('log1p argument <= -1')
                if name in ('arcsin', 'arctanh') and np.any(np.abs(a.real) >= 1 - 1e-8):
                    bad('%s argument outside (-1, 1)' % name)
                if name == 'arctan' and np.any((np.abs(a.imag) >= 1 - 1e-8) & (np.abs(a.real) < 1e-3)):
                    bad('arctan argument near +-i')
                if name == 'arcsinh' and np.any((np.abs(a.imag) >= 1 - 1e-8) & (np.abs(a.real) < 1e-3)):
                    bad('arcsinh argument near +-i')
                if name == 'tan' and np.any(np.abs(np.cos(a)) < 1e-6):
                    bad('tan at a pole')
                if name == 'tanh' and np.any(np.abs(np.cosh(a)) < 1e-6):
                    bad('tanh at a pole')
                if name in ('exp', 'sinh', 'cosh', 'expm1') and np.any(np.abs(a.real) > 700):
                    bad('exp-like overflow')
                v = getattr(np, name)(a)
            if not np.all(np.isfinite(v)):
                bad('non-finite intermediate')
            else:
                m = float(np.max(np.abs(v)))
                st['maxabs'] = max(st['maxabs'], m)
                nz = np.abs(v)[np.abs(v) > 0]
                if nz.size:
                    st['minabs'] = min(st['minabs'], float(np.min(nz)))      # smallest non-zero intermediate
                if m > 1e100:
                    bad('intermediate above 1e100')
        return v

    try:
        ev(t)
    except Exception as exc:  # pragma: no cover
        bad('scan error %r' % (exc,))
    return ScanResult(st['ok'], st['reason'], st['maxabs'], st['minabs'])


def _eval_c(t, z):
    """plain complex evaluation of a node at python complex z (numpy scalar functions)"""
    k = t[0]
    if k == 'x':
        return z
    if k == 'c':
        return complex(t[1])
    if k == 'ci':
        return complex(0, t[1])
    if k == 'add':
        return _eval_c(t[1], z) + _eval_c(t[2], z)
    if k == 'sub':
        return _eval_c(t[1], z) - _eval_c(t[2], z)
    if k == 'mul':
        return _eval_c(t[1], z) * _eval_c(t[2], z)
    if k == 'div':
        return _eval_c(t[1], z) / _eval_c(t[2], z)
    if k == 'powi':
        return _eval_c(t[1], z) ** int(t[2])
    if k == 'powr':
        return _eval_c(t[1], z) ** float(t[2])
    return complex(getattr(np, t[1])(np.complex128(_eval_c(t[2], z))))


def neighbourhood_ok(t, x, a, b, frac=0.5):
    """Is the bicomplex argument with idempotent components a, b (base point x, real) inside the
    neighbourhood of the real domain on which every node of the program is analytic *and* single-branched:
    for every node that divides, takes a log / root / real power or has poles, the argument values at a and b
    stay within `frac` of the distance from the value at x to the nearest singular point of that node."""
    try:
        with np.errstate(all='ignore'):
            for n in nodes(t):
                k = n[0]
                if k in ('x', 'c', 'ci', 'add', 'sub', 'mul'):
                    continue
                arg = n[2] if k in ('div', 'fn') else n[1]
                if k == 'powi' and n[2] >= 0:
                    continue
                v0, va, vb = _eval_c(arg, complex(x)), _eval_c(arg, complex(a)), _eval_c(arg, complex(b))
                if not all(np.isfinite([v0.real, va.real, vb.real, va.imag, vb.imag])):
                    return False
                spread = max(abs(va - v0), abs(vb - v0))
                name = n[1] if k == 'fn' else k
                r0 = v0.real
                if name in ('div', 'powi', 'powr', 'log', 'sqrt', 'log2', 'log10', 'coth', 'csch'):
                    dist = abs(r0)
                elif name == 'log1p':
                    dist = abs(1 + r0)
                elif name in ('arcsin', 'arccos', 'arctanh'):
                    dist = 1 - abs(r0)
                elif name == 'arccosh':
                    dist = r0 - 1
                elif name == 'arcsinh':
                    dist = math.hypot(r0, 1.0)
                elif name == 'arctan':
                    # singular points +-i; the log(1 -+ j w) formula is additionally single-branched only
                    # while the perturbation of w stays below 1 in absolute size
                    dist = 1.0
                elif name in ('tan', 'sec'):
                    dist = abs(math.remainder(r0 - math.pi / 2, math.pi))
                elif name in ('cot', 'csc'):
                    dist = abs(math.remainder(r0, math.pi))
                elif name in ('tanh', 'sech'):
                    dist = math.pi / 2        # poles at i(k+1/2)pi; also keeps cosh from changing sign
                else:
                    if name in ('exp', 'exp2', 'expm1', 'sinh', 'cosh', 'sin', 'cos'):
                        dist = 2.0            # entire; only keep the oscillation/growth moderate
                    else:
                        dist = 1.0
                if name in ('coth', 'csch'):
                    dist = min(dist, math.pi / 2)
                if dist <= 0 or spread > frac * dist:
                    return False
    except Exception:
        return False
    return True


# ------------------------------------------------------------------------------ generation
NICE_CONSTS = [0.5, 1.0, 1.5, 2.0, 3.0, 0.25, 0.75, 2.5, 4.0, 0.1]


def rand_const(rng, ugly=0.4):
    if rng.random() < ugly:
        v = float(np.round(10.0 ** rng.uniform(-1, 0.7), 4))
    else:
        v = float(rng.choice(NICE_CONSTS))
    return -v if rng.random() < 0.3 else v


def rand_tree(rng, depth, unary=UNARY, p_leaf=0.25, allow_powr=True):
    """Random tree containing x (guaranteed by construction of the left spine)."""
    def gen(d, need_x):
        if d <= 0 or (not need_x and rng.random() < p_leaf):
            if need_x or rng.random() < 0.6:
                return ('x',)
            return ('c', rand_const(rng))
        u = rng.random()
        if u < 0.45:
            return ('fn', str(rng.choice(unary)), gen(d - 1, need_x))
        if u < 0.85:
            op = str(rng.choice(['add', 'sub', 'mul', 'div', 'add', 'mul']))
            if rng.random() < 0.5:
                a, b = gen(d - 1, need_x), gen(d - 1, False)
            else:
                a, b = gen(d - 1, False), gen(d - 1, need_x)
            if not (contains_x(a) or contains_x(b)):
                a = ('x',)
            return (op, a, b)
        if u < 0.95 or not allow_powr:
            return ('powi', gen(d - 1, need_x), int(rng.choice([2, 3, -1, -2, 4, 5])))
        return ('powr', gen(d - 1, need_x), float(rng.choice([0.5, 1.5, 2.5, -0.5, 0.3333, 1.7])))
    return gen(depth, True)


TEMPLATES = [
    # internal cancellation (g + M) - M
    ('sub', ('add', ('fn', 'exp', ('x',)), ('c', 1e6)), ('c', 1e6)),
    # near-pole
    ('div', ('c', 1.0), ('sub', ('x',), ('c', 3.0))),
    # large argument
    ('fn', 'sinh', ('mul', ('c', 3.0), ('x',))),
    # branch sensitive
    ('powi', ('x',), 3),
    ('powi', ('fn', 'expm1', ('x',)), 2),
    ('fn', 'log1p', ('fn', 'log1p', ('mul', ('x',), ('x',)))),
    ('mul', ('powi', ('x',), 3), ('fn', 'cos', ('mul', ('c', 2.0), ('x',)))),
    ('div', ('c', 1.0), ('add', ('c', 1.0), ('mul', ('x',), ('x',)))),
    ('fn', 'tanh', ('fn', 'cosh', ('x',))),
    ('fn', 'arctan', ('mul', ('c', 2.0), ('x',))),
    ('fn', 'sqrt', ('add', ('c', 1.0), ('mul', ('x',), ('x',)))),
    ('fn', 'exp', ('fn', 'sin', ('x',))),
]
