"""Exact rational arithmetic on the floating-point values the library consumed / produced
(every finite binary64 value is a rational).  Shares no code with numdifftools."""
from fractions import Fraction
import math

EPS = 2.0 ** -52


def F(x):
    """float / int / Fraction -> Fraction (exact)."""
    if isinstance(x, Fraction):
        return x
    return Fraction(x)


def shanks3(e0, e1, e2):
    """Exact three-term Shanks / Aitken value e1 + 1/(1/(e2-e1) - 1/(e1-e0)).
    Returns (value, corr, d1, d2) as Fractions, or None if a difference (or the
    denominator) vanishes."""
    e0, e1, e2 = F(e0), F(e1), F(e2)
    d1, d2 = e1 - e0, e2 - e1
    if d1 == 0 or d2 == 0:
        return None
    sss = 1 / d2 - 1 / d1
    if sss == 0:
        return None
    corr = 1 / sss
    return e1 + corr, corr, d1, d2, sss


def wynn_table(terms):
    """Wynn's epsilon table from exact terms.  Returns list of columns: col[k][n] =
    eps_k^{(n)}; stops a column when a difference vanishes (returns what exists and a flag).
    """
    s = [F(t) for t in terms]
    cols = [[Fraction(0)] * (len(s) + 1), s]     # eps_{-1}, eps_0
    ok = True
    while len(cols[-1]) > 1:
        prev, cur = cols[-2], cols[-1]
        new = []
        for n in range(len(cur) - 1):
            d = cur[n + 1] - cur[n]
            if d == 0:
                ok = False
                break
            new.append(prev[n + 1] + 1 / d)
        if not ok:
            break
        cols.append(new)
    return cols[1:], ok      # drop eps_{-1}


def highest_even_entry(terms):
    """Entry of highest even order determined by the terms: eps_{2k}^{(N-1-2k)} with
    2k = N-1 (N odd) or N-2 (N even).  Returns (value, ok, min_rel_diff)."""
    cols, ok = wynn_table(terms)
    n = len(terms)
    k = (n - 1) // 2 * 2
    if not ok or len(cols) <= k:
        return None, False
    col = cols[k]
    return col[-1], True


def solve(A, b):
    """Exact Gaussian elimination with Fractions. A: list of rows. Returns x or None."""
    n = len(A)
    M = [[F(v) for v in row] + [F(bv)] for row, bv in zip(A, b)]
    for c in range(n):
        piv = None
        for r in range(c, n):
            if M[r][c] != 0:
                piv = r
                break
        if piv is None:
            return None
        M[c], M[piv] = M[piv], M[c]
        pv = M[c][c]
        M[c] = [v / pv for v in M[c]]
        for r in range(n):
            if r != c and M[r][c] != 0:
                f = M[r][c]
                M[r] = [a - f * bb for a, bb in zip(M[r], M[c])]
    return [M[i][n] for i in range(n)]


def lagrange_derivative_weights(nodes, x0, kmax):
    """Row k (0..kmax) = weights w_j with sum_j w_j p(x_j) = p^(k)(x0) for every polynomial
    p of degree < len(nodes).  Exact, from the definition: Taylor-moment system
    sum_j w_j (x_j-x0)^d / d! = [d == k], d = 0..m-1."""
    xs = [F(v) - F(x0) for v in nodes]
    m = len(xs)
    # matrix V[d][j] = xs[j]^d / d!
    V = []
    fact = Fraction(1)
    pw = [Fraction(1)] * m
    for d in range(m):
        if d > 0:
            fact *= d
            pw = [p * x for p, x in zip(pw, xs)]
        V.append([p / fact for p in pw])
    rows = []
    for k in range(kmax + 1):
        rhs = [Fraction(1) if d == k else Fraction(0) for d in range(m)]
        rows.append(solve(V, rhs))
    return rows


def to_float(fr):
    try:
        return float(fr)
    except OverflowError:
        return math.inf if fr > 0 else -math.inf
