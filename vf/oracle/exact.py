"""Exact rational arithmetic on the floating-point values the library consumed / produced
(every finite binary64 value is a rational).  Shares no code with numdifftools."""
from fractions import Fraction
import math

EPS = 2.0 ** -52


def F(x):
    """float / int / Fraction -> Fraction (exact)."""
    if isinstance(x, Fraction):
        return x
    return Fraction(x)


def shanks3(e0, e1, e2):
    """Exact three-term Shanks / Aitken value e1 + 1/(1/(e2-e1) - 1/(e1-e0)).
    Returns (value, corr, d1, d2) as Fractions, or None if a difference (or the
    denominator) vanishes."""
    e0, e1, e2 = F(e0), F(e1), F(e2)
    d1, d2 = e1 - e0, e2 - e1
    if d1 == 0 or d2 == 0:
        return None
    sss = 1 / d2 - 1 / d1
    if sss == 0:
        return None
    corr = 1 / sss
    return e1 + corr, corr, d1, d2, sss


def wynn_table(terms, perturb=None):
    """Wynn's epsilon table from exact terms.  Returns (columns, ok): col[k][n] = eps_k^{(n)};
    ok is False when a difference vanished (the table stops there).
    `perturb`, if given, is applied to every computed entry (used to model the rounding of a
    floating-point evaluation of the same recursion: entry -> entry*(1 +- eps))."""
    s = [F(t) for t in terms]
    cols = [[Fraction(0)] * (len(s) + 1), s]     # eps_{-1}, eps_0
    ok = True
    while len(cols[-1]) > 1:
        prev, cur = cols[-2], cols[-1]
        new = []
        for n in range(len(cur) - 1):
            d = cur[n + 1] - cur[n]
            if d == 0:
                ok = False
                break
            v = prev[n + 1] + 1 / d
            new.append(perturb(v) if perturb is not None else v)
        if not ok:
            break
        cols.append(new)
    return cols[1:], ok      # drop eps_{-1}


def highest_even_entry(terms):
    """Entry of highest even order determined by the terms: eps_{2k}^{(N-1-2k)} with
    2k = N-1 (N odd) or N-2 (N even).  Returns (value, ok, min_rel_diff)."""
    cols, ok = wynn_table(terms)
    n = len(terms)
    k = (n - 1) // 2 * 2
    if not ok or len(cols) <= k:
        return None, False
    col = cols[k]
    return col[-1], True


def solve(A, b):
    """Exact Gaussian elimination with Fractions. A: list of rows. Returns x or None."""
    n = len(A)
    M = [[F(v) for v in row] + [F(bv)] for row, bv in zip(A, b)]
    for c in range(n):
        piv = None
        for r in range(c, n):
            if M[r][c] != 0:
                piv = r
                break
        if piv is None:
            return None
        M[c], M[piv] = M[piv], M[c]
        pv = M[c][c]
        M[c] = [v / pv for v in M[c]]
        for r in range(n):
            if r != c and M[r][c] != 0:
                f = M[r][c]
                M[r] = [a - f * bb for a, bb in zip(M[r], M[c])]
    return [M[i][n] for i in range(n)]


def lagrange_derivative_weights(nodes, x0, kmax):
    """rows[k][j] (k = 0..kmax) = k-th derivative at x0 of the Lagrange basis polynomial
    l_j of the nodes, i.e. sum_j rows[k][j] p(x_j) = p^(k)(x0) for every polynomial p of
    degree < len(nodes).  Exact; straight from the definition
        l_j(t) = prod_{i != j} (t - t_i) / prod_{i != j} (t_j - t_i),   t = x - x0,
    using the truncated product P(t) = prod_i (t - t_i) and synthetic division by (t - t_j).
    """
    ts = [F(v) - F(x0) for v in nodes]
    m = len(ts)
    K = min(kmax, m - 1)
    # P truncated to degree K+1
    P = [Fraction(1)] + [Fraction(0)] * (K + 1)
    for t in ts:
        for d in range(K + 1, 0, -1):
            P[d] = P[d - 1] - t * P[d]
        P[0] = -t * P[0]
    rows = [[Fraction(0)] * m for _ in range(kmax + 1)]
    for j, tj in enumerate(ts):
        den = Fraction(1)
        for i, ti in enumerate(ts):
            if i != j:
                den *= (tj - ti)
        if den == 0:
            raise ZeroDivisionError('nodes are not distinct')
        q = [Fraction(0)] * (K + 1)
        if tj == 0:
            for d in range(K + 1):
                q[d] = P[d + 1]
        else:
            q[0] = -P[0] / tj
            for d in range(1, K + 1):
                q[d] = (q[d - 1] - P[d]) / tj
        fact = Fraction(1)
        for k in range(K + 1):
            if k > 0:
                fact *= k
            rows[k][j] = fact * q[k] / den
    return rows


def poly_eval(coefs, x):
    """Horner, exact. coefs[d] multiplies x^d."""
    x = F(x)
    acc = Fraction(0)
    for c in reversed(coefs):
        acc = acc * x + F(c)
    return acc


def poly_deriv(coefs, n):
    out = [F(c) for c in coefs]
    for _ in range(n):
        out = [d * c for d, c in enumerate(out)][1:]
    return out or [Fraction(0)]


def to_float(fr):
    try:
        return float(fr)
    except OverflowError:
        return math.inf if fr > 0 else -math.inf


class QI(object):
    """Gaussian rationals Q(i): exact complex arithmetic on float complex inputs."""
    __slots__ = ('re', 'im')

    def __init__(self, re=0, im=0):
        if isinstance(re, QI):
            self.re, self.im = re.re, re.im
        elif isinstance(re, complex):
            self.re, self.im = Fraction(re.real), Fraction(re.imag)
        else:
            self.re, self.im = F(re), F(im)

    @staticmethod
    def of(v):
        if isinstance(v, QI):
            return v
        if isinstance(v, complex):
            return QI(v)
        try:
            import numpy as _np
            if isinstance(v, _np.complexfloating):
                return QI(complex(v))
            if isinstance(v, _np.floating):
                return QI(float(v))
        except ImportError:
            pass
        return QI(F(v))

    def __add__(self, o):
        o = QI.of(o)
        return QI(self.re + o.re, self.im + o.im)
    __radd__ = __add__

    def __sub__(self, o):
        o = QI.of(o)
        return QI(self.re - o.re, self.im - o.im)

    def __rsub__(self, o):
        return QI.of(o) - self

    def __neg__(self):
        return QI(-self.re, -self.im)

    def __mul__(self, o):
        o = QI.of(o)
        return QI(self.re * o.re - self.im * o.im, self.re * o.im + self.im * o.re)
    __rmul__ = __mul__

    def inv(self):
        d = self.re * self.re + self.im * self.im
        return QI(self.re / d, -self.im / d)

    def __truediv__(self, o):
        return self * QI.of(o).inv()

    def __rtruediv__(self, o):
        return QI.of(o) * self.inv()

    def __pow__(self, k):
        k = int(k)
        if k < 0:
            return self.inv() ** (-k)
        out, base = QI(1), self
        while k:
            if k & 1:
                out = out * base
            base = base * base
            k >>= 1
        return out

    def __eq__(self, o):
        o = QI.of(o)
        return self.re == o.re and self.im == o.im

    def is_zero(self):
        return self.re == 0 and self.im == 0

    def abs2(self):
        return self.re * self.re + self.im * self.im

    def abs_float(self):
        return math.hypot(to_float(self.re), to_float(self.im))

    def to_complex(self):
        return complex(to_float(self.re), to_float(self.im))

    def __repr__(self):
        return 'QI(%r,%r)' % (to_float(self.re), to_float(self.im))
