"""Truncated Taylor-series arithmetic ("jets") over mpmath numbers.

eval_jet(tree, x0, K) evaluates the *same expression tree* the library differentiates and returns
the coefficients c_k = f^(k)(x0)/k!, k = 0..K, by the standard recurrences for + - * /, powers and
the elementary functions (ODE recurrences, e.g. s' = c u', c' = -s u';  v = log u => u v' = u').
It shares no code with numdifftools, numpy ufuncs or Bicomplex.

Alongside, `noise` is a running absolute bound on the rounding of evaluating the tree in binary64 at x0
(eps*|node value| committed at every node, propagated with the node's derivative magnitude): the size
of f as a floating-point program.
"""
import mpmath

EPS = 2.0 ** -52


class Ctx(object):
    def __init__(self, dps=50):
        self.mp = mpmath.mp.clone() if hasattr(mpmath.mp, 'clone') else mpmath.mp
        self.mp.dps = dps


def _mul(a, b, K):
    out = []
    for k in range(K + 1):
        s = 0
        for j in range(k + 1):
            s += a[j] * b[k - j]
        out.append(s)
    return out


def _div(a, b, K):
    out = []
    b0 = b[0]
    for k in range(K + 1):
        s = a[k]
        for j in range(1, k + 1):
            s -= b[j] * out[k - j]
        out.append(s / b0)
    return out


def _integrate(u, g, v0, K):
    """v with v' = g * u', v(x0) = v0."""
    out = [v0]
    for k in range(1, K + 1):
        s = 0
        for j in range(1, k + 1):
            s += j * u[j] * g[k - j]
        out.append(s / k)
    return out


def _exp(u, K, mp, e0=None):
    out = [mp.exp(u[0]) if e0 is None else e0]
    for k in range(1, K + 1):
        s = 0
        for j in range(1, k + 1):
            s += j * u[j] * out[k - j]
        out.append(s / k)
    return out


def _log(u, K, mp):
    out = [mp.log(u[0])]
    u0 = u[0]
    for k in range(1, K + 1):
        s = 0
        for j in range(1, k):
            s += j * out[j] * u[k - j]
        out.append((u[k] - s / k) / u0)
    return out


def _powr(u, p, K, mp):
    u0 = u[0]
    out = [mp.power(u0, p)]
    for k in range(1, K + 1):
        s = 0
        for j in range(1, k + 1):
            s += (p * j - (k - j)) * u[j] * out[k - j]
        out.append(s / (k * u0))
    return out


def _sincos(u, K, mp, hyperbolic=False):
    if hyperbolic:
        s, c = [mp.sinh(u[0])], [mp.cosh(u[0])]
    else:
        s, c = [mp.sin(u[0])], [mp.cos(u[0])]
    sign = 1 if hyperbolic else -1
    for k in range(1, K + 1):
        ss = cc = 0
        for j in range(1, k + 1):
            ss += j * u[j] * c[k - j]
            cc += j * u[j] * s[k - j]
        s.append(ss / k)
        c.append(sign * cc / k)
    return s, c


def _powi(u, n, K, mp):
    if n == 0:
        return [mp.mpf(1)] + [mp.mpf(0)] * K
    neg = n < 0
    n = abs(n)
    result = None
    base = u
    while n:
        if n & 1:
            result = base if result is None else _mul(result, base, K)
        n >>= 1
        if n:
            base = _mul(base, base, K)
    if neg:
        one = [mp.mpf(1)] + [mp.mpf(0)] * K
        result = _div(one, result, K)
    return result


def eval_jet(tree, x0, K, ctx, with_noise=True, log_formula_noise=False, perturb=None):
    """Returns (coefficients list of length K+1, noise float).  Raises ZeroDivisionError / ValueError on
    domain problems."""
    mp = ctx.mp
    x0 = mp.mpf(x0) if not isinstance(x0, (complex, mpmath.mpc)) else mp.mpc(x0)

    def one():
        return [mp.mpf(1)] + [mp.mpf(0)] * K

    def ev(t):
        # `perturb` (a callable returning -1, 0 or +1) models an evaluation of the same recurrences in binary64: every
        # coefficient of every node is committed with a relative rounding of one eps
        v, nz = ev0(t)
        if perturb is not None:
            v = [c * (1 + EPS * perturb()) for c in v]
        return v, nz

    def ev0(t):
        k = t[0]
        if k == 'x':
            # the abscissa x0 +- h the program is evaluated at is itself rounded: eps*|x0|
            return [x0, mp.mpf(1)] + [mp.mpf(0)] * (K - 1), EPS * float(abs(x0))
        if k == 'c':
            return [mp.mpf(t[1])] + [mp.mpf(0)] * K, 0.0
        if k == 'ci':
            return [mp.mpc(0, t[1])] + [mp.mpf(0)] * K, 0.0
        if k in ('add', 'sub', 'mul', 'div'):
            a, na = ev(t[1])
            b, nb = ev(t[2])
            if k == 'add':
                v = [p + q for p, q in zip(a, b)]
                nz = na + nb
            elif k == 'sub':
                v = [p - q for p, q in zip(a, b)]
                nz = na + nb
            elif k == 'mul':
                v = _mul(a, b, K)
                nz = float(abs(a[0])) * nb + float(abs(b[0])) * na
            else:
                v = _div(a, b, K)
                b0 = float(abs(b[0]))
                nz = na / b0 + float(abs(a[0])) * nb / (b0 * b0)
            return v, nz + EPS * float(abs(v[0]))
        if k == 'powi':
            a, na = ev(t[1])
            n = int(t[2])
            v = _powi(a, n, K, mp)
            a0 = float(abs(a[0]))
            d = abs(n) * float(abs(v[0])) / a0 if a0 > 0 else 0.0
            return v, d * na + EPS * float(abs(v[0])) * max(1, abs(n).bit_length())
        if k == 'powr':
            a, na = ev(t[1])
            p = mp.mpf(t[2])
            v = _powr(a, p, K, mp)
            a0 = float(abs(a[0]))
            return v, abs(float(p)) * float(abs(v[0])) / a0 * na + 2 * EPS * float(abs(v[0]))
        # unary functions
        name = t[1]
        u, nu = ev(t[2])
        u0 = u[0]
        if abs(u0) > 1e8 and name in ('sin', 'cos', 'tan', 'exp', 'expm1', 'sinh', 'cosh', 'tanh'):
            raise OverflowError('argument too large for a meaningful reference value')
        if name == 'exp':
            v = _exp(u, K, mp)
            d = abs(v[0])
        elif name == 'expm1':
            v = _exp(u, K, mp)
            d = abs(v[0])
            v = [mp.expm1(u0)] + v[1:]
        elif name == 'log':
            v = _log(u, K, mp)
            d = 1 / abs(u0)
        elif name == 'log1p':
            w = [u0 + 1] + u[1:]
            v = _log(w, K, mp)
            d = 1 / abs(w[0])
            nu = nu + EPS      # forming 1 + u costs an absolute eps (numpy's complex log1p is log(1 + u))
        elif name == 'sqrt':
            v = _powr(u, mp.mpf(1) / 2, K, mp)
            d = 1 / (2 * abs(v[0]))
        elif name in ('sin', 'cos'):
            s, c = _sincos(u, K, mp)
            v, d = (s, abs(c[0])) if name == 'sin' else (c, abs(s[0]))
        elif name in ('sinh', 'cosh'):
            s, c = _sincos(u, K, mp, hyperbolic=True)
            v, d = (s, abs(c[0])) if name == 'sinh' else (c, abs(s[0]))
        elif name == 'tan':
            s, c = _sincos(u, K, mp)
            if perturb is not None:      # (the library forms tan and tanh as quotients of separately rounded sin / cos)
                s = [q * (1 + EPS * perturb()) for q in s]
                c = [q * (1 + EPS * perturb()) for q in c]
            v = _div(s, c, K)
            d = 1 / abs(c[0]) ** 2
        elif name == 'tanh':
            s, c = _sincos(u, K, mp, hyperbolic=True)
            if perturb is not None:
                s = [q * (1 + EPS * perturb()) for q in s]
                c = [q * (1 + EPS * perturb()) for q in c]
            v = _div(s, c, K)
            d = 1 / abs(c[0]) ** 2
        elif name == 'arctan':
            w = _mul(u, u, K)
            w[0] += 1
            g = _div(one(), w, K)
            v = _integrate(u, g, mp.atan(u0), K)
            d = abs(g[0])
        elif name == 'arctanh':
            w = _mul(u, u, K)
            w = [1 - w[0]] + [-q for q in w[1:]]
            g = _div(one(), w, K)
            v = _integrate(u, g, mp.atanh(u0), K)
            d = abs(g[0])
        elif name == 'arcsin':
            w = _mul(u, u, K)
            w = [1 - w[0]] + [-q for q in w[1:]]
            g = _powr(w, -mp.mpf(1) / 2, K, mp)
            v = _integrate(u, g, mp.asin(u0), K)
            d = abs(g[0])
        elif name == 'arcsinh':
            w = _mul(u, u, K)
            w[0] += 1
            g = _powr(w, -mp.mpf(1) / 2, K, mp)
            v = _integrate(u, g, mp.asinh(u0), K)
            d = abs(g[0])
        elif name == 'arccos':
            w = _mul(u, u, K)
            w = [1 - w[0]] + [-q for q in w[1:]]
            g = [-q for q in _powr(w, -mp.mpf(1) / 2, K, mp)]
            v = _integrate(u, g, mp.acos(u0), K)
            d = abs(g[0])
        else:
            raise ValueError('jets: unsupported function %r' % name)
        extra = EPS if (log_formula_noise and name in ('arctan', 'arctanh', 'arcsin', 'arcsinh', 'arccos')) else 0.0
        return v, float(d) * nu + 2 * EPS * float(abs(v[0])) + extra

    coefs, noise = ev(tree)
    return coefs, noise


def coefficient_noise(tree, x0, n, ctx, rng, runs=6, exact=None):
    """Measured rounding sensitivity of the n-th Taylor coefficient when the program is evaluated in truncated
    Taylor arithmetic of order n in binary64 (what a complex / bicomplex step evaluation is): the largest deviation of
    c_n over `runs` evaluations in which every node's coefficients carry a random +-eps relative perturbation."""
    if exact is None:
        exact = eval_jet(tree, x0, n, ctx)[0][n]
    worst = 0.0
    for _ in range(runs):
        c, _nz = eval_jet(tree, x0, n, ctx, perturb=lambda: int(rng.integers(-1, 2)))
        worst = max(worst, float(abs(c[n] - exact)))
    return worst
