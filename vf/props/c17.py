"""C17 - FFT Taylor coefficients are accurate within their reported error."""
import math

import numpy as np

from vf import expr as X
from vf.oracle import jets
from vf.props import _deriv as D

ID = 'C17'
NSHARDS = dict(quick=8, thorough=16)
BUDGET = dict(quick=1600, thorough=60000)
ANCHORS = ['numdifftools.fornberg:Taylor.__call__', 'numdifftools.fornberg:Taylor._check_convergence',
           'numdifftools.fornberg:_get_best_taylor_coefficients', 'numdifftools.fornberg:_extrapolate',
           'numdifftools.fornberg:_num_taylor_coefficients', 'numdifftools.fornberg:derivative',
           'numdifftools.fornberg:_poor_convergence', 'numdifftools.fornberg:_check_fft']
MIN_COUNTERS = dict(quick={'expansions_with_initial_radius_beyond_a_close_pole': 40, 'length_asserted': 1500, 'coefficients_asserted': 8000, 'derivative_scaling_asserted': 300,
                           'default_radius_status_asserted': 300, 'failed_flag_asserted': 1500},
                    thorough={'coefficients_asserted': 300000})
RULE = ('3 % nested expansions: the expanded function computes d/dw f(z + w) with derivative() element by element. ' 
        'f in {exp(a z), 1/(b - z), sin(a z), cos(a z), log(b + z), (1 + z)^p, polynomials, products and compositions of them} '
        'as expression trees (exact coefficients from jets over 50-digit complex arithmetic), z0 in the unit square of C or real, '
        'n in 1..100, initial radius 1e-5..1 (or the default), step_ratio 1.2..3, num_extrap 1..5. distinct non-trivial = (family, n '
        'bucket, radius decade, complex z0?) for runs reported neither degenerate nor failed')
ASSUMPTIONS = ['|c_k - exact_k| <= K * error_estimate_k + C * eps * max_{|z - z0| = R_last} |f| / (R/1.17)^k for k <= n, with R the smallest '
               'of the last three circles the search used (the circles entering the final Richardson extrapolation; observed from the '
               'real Taylor.__call__ frame), K = 100, C = 30.  The factor 1.17^k is calibrated: rows from earlier, slightly smaller circles '
               'may be selected, and the measured excess over eps*max|f|/R^k on the unchanged tree grows geometrically with k (0.13 for '
               'k < 8, 1.2 for k < 16, 51 for k < 32, 705 for k < 64, 4e5 for k ~ 91; 180 000 thorough cases)',
               'the singularity-free radius of every generated function around z0 is at least 1.5 (for the default-radius clause)',
               'failed must equal "the loop ended without convergence" as observed in the frame of Taylor.__call__']
EPS = 2.0 ** -52
K_EST, C_FLOOR, R_SHRINK = 100.0, 30.0, 1.17
FAMILIES = ['exp', 'inv', 'sin', 'cos', 'log', 'pow', 'poly', 'product', 'composition']
_T = {}


def setup(ctx, mon):
    import numdifftools.fornberg  # noqa

    def on_call_return(frame, ret):
        loc = frame.f_locals
        _T['rs'] = list(loc.get('rs') or [])
        _T['bs'] = [np.array(b_, copy=True) for b_ in (loc.get('bs') or [])]
        _T['converged'] = bool(loc.get('converged'))
        _T['i'] = int(loc.get('i', -1))
        _T['max_iter'] = int(getattr(loc.get('self'), 'max_iter', -1))

    def on_conv(frame, ret):
        slf = frame.f_locals.get('self')
        if slf is not None and getattr(slf, '_degenerate', False):
            _T['degenerate_seen'] = True
    for a in ANCHORS:
        mon.watch(a, on_return=on_call_return if a.endswith('Taylor.__call__') else
                  on_conv if a.endswith('_check_convergence') else None)


def make_tree(rng, fam):
    a = float(np.round(rng.uniform(0.3, 2.0), 3)) * (1 if rng.random() < 0.7 else -1)
    b = float(np.round(rng.uniform(3.0, 6.0), 3))
    x = ('x',)
    if fam in ('exp', 'sin', 'cos') and rng.random() < 0.3:
        # a complex rate: the function is real (or zero) at z = 0 but its Taylor coefficients are not real
        ac = ('add', ('c', a if rng.random() < 0.5 else 0.0), ('ci', float(np.round(rng.uniform(0.3, 2.0), 3))))
        return ('fn', fam, ('mul', ac, x)), None
    if fam == 'exp':
        return ('fn', 'exp', ('mul', ('c', a), x)), None
    if fam == 'inv':
        return ('div', ('c', 1.0), ('sub', ('c', b), x)), b
    if fam == 'sin':
        return ('fn', 'sin', ('mul', ('c', a), x)), None
    if fam == 'cos':
        return ('fn', 'cos', ('mul', ('c', a), x)), None
    if fam == 'log':
        return ('fn', 'log', ('add', ('c', b), x)), -b
    if fam == 'pow':
        return ('powr', ('add', ('c', b), x), float(rng.choice([0.5, 1.5, -0.5, 2.5, 0.3333]))), -b
    if fam == 'poly':
        deg = int(rng.integers(1, 7))
        t = ('c', float(rng.integers(1, 5)))
        for d in range(1, deg + 1):
            t = ('add', t, ('mul', ('c', float(rng.integers(-4, 5)) or 1.0), ('powi', x, d)))
        return t, None
    if fam == 'product':
        return ('mul', ('fn', 'exp', ('mul', ('c', a), x)), ('div', ('c', 1.0), ('sub', ('c', b), x))), b
    return ('fn', 'exp', ('fn', 'sin', ('mul', ('c', min(abs(a), 1.0)), x))), None


# witnesses of listed findings that the quick tier does not always draw
KNOWN_WITNESSES = [
    dict(family='cos', tree=['fn', 'cos', ['mul', ['c', -0.641], ['x']]], singularity=None, z0=[0.077, 0.0], n=15, r=None,
         step_ratio=None, num_extrap=None, via='Taylor'),        # radius-search-exhausts-iterations
]


def cases(rng, tier, shard, nshards):
    if shard == 0:
        for c in KNOWN_WITNESSES:
            yield dict(c)
    for i in range(BUDGET[tier] // nshards):
        fam = FAMILIES[(i + shard) % len(FAMILIES)]
        u = rng.random()
        n = int(rng.integers(1, 21)) if u < 0.6 else int(rng.integers(21, 101))
        default_r = rng.random() < 0.45
        cz = rng.random() < 0.5
        z0 = [float(np.round(rng.uniform(-1, 1), 3)), float(np.round(rng.uniform(-1, 1), 3)) if cz else 0.0]
        if rng.random() < 0.1:
            z0 = [0.0, 0.0]              # the default expansion point, exactly
        tree, sing = make_tree(rng, fam)
        if rng.random() < 0.08:
            # the same function in other units (Planck's constant, a mass in kg ...): nothing in the statement knows an absolute scale
            tree = ('mul', ('c', float(10.0 ** (rng.uniform(-40, -14) if rng.random() < 0.7 else rng.uniform(12, 30)))), tree)
        if rng.random() < 0.03 and fam != 'poly':
            yield dict(family=fam, tree=tree, singularity=sing, z0=z0, n=int(rng.integers(1, 14)), inner_n=int(rng.integers(1, 14)),
                       nested=True, r=None)
            continue
        if rng.random() < 0.04:
            # a lacunary series about z0 = 0 exactly: g(z^2), g(z^4), g(z^8) - most FFT bins hold nothing but rounding noise
            p_ = int(rng.choice([2, 4, 4, 8]))
            inner = ('powi', ('x',), p_)
            g_ = int(rng.integers(0, 4))
            tree_l = [('fn', 'cos', inner), ('fn', 'exp', inner), ('div', ('c', 1.0), ('add', ('c', float(rng.choice([2.0, 4.0]))), inner)),
                      ('fn', 'cosh', inner)][g_]
            sing_l = None
            # (the expansion asked for reaches the first non-constant term: up to there the function *is* a constant, and being
            # told so - "degenerate" - is what the flag is for)
            deg1 = p_ * (2 if g_ in (0, 3) else 1)
            yield dict(family='lacunary', tree=tree_l, singularity=sing_l, z0=[0.0, 0.0], n=int(rng.integers(deg1, 21)),
                       r=None, step_ratio=None, num_extrap=None, via=str(rng.choice(['taylor', 'derivative', 'Taylor'])))
            continue
        if rng.random() < 0.05:
            # a slowly varying function (its good radius is 20+ growth steps from the default one) with the iteration cap raised
            # explicitly, as the documentation suggests, and nothing else changed
            fam2 = str(rng.choice(['exp', 'sin', 'cos']))
            a2 = float(np.round(rng.uniform(0.05, 0.2), 3)) * (1 if rng.random() < 0.5 else -1)
            yield dict(family=fam2, tree=('fn', fam2, ('mul', ('c', a2), ('x',))), singularity=None, z0=z0, n=int(rng.integers(12, 21)),
                       r=None, step_ratio=None, num_extrap=None, max_iter=int(rng.choice([40, 50, 60])),
                       via=str(rng.choice(['taylor', 'derivative', 'Taylor'])))
            continue
        if rng.random() < 0.06:
            # a pole close to z0 (0.02 .. 0.06 away) and an initial radius 8 .. 32 times that distance: the first circles enclose the
            # pole and hold nothing of the expansion; the search has to come back inside and the estimates of those first circles
            # must not be selected for any coefficient (they span 20+ decades for n >= 13)
            dist = float(np.round(10.0 ** rng.uniform(-1.7, -1.22), 4))
            ang = float(rng.uniform(0, 2 * np.pi)) if z0[1] else float(rng.choice([0.0, np.pi]))
            bc = complex(z0[0], z0[1]) + dist * complex(np.cos(ang), np.sin(ang))
            bt = ('add', ('c', float(bc.real)), ('ci', float(bc.imag))) if z0[1] else ('c', float(bc.real))
            yield dict(family='inv_close', tree=('div', ('c', 1.0), ('sub', bt, ('x',))), singularity=[float(bc.real), float(bc.imag) if z0[1] else 0.0],
                       z0=z0, n=int(rng.integers(13, 28)), r=float(min(dist * rng.uniform(8, 32), 1.0)), step_ratio=None, num_extrap=None,
                       via=str(rng.choice(['taylor', 'derivative', 'Taylor'])))
            continue
        if rng.random() < 0.04:
            # high order from a very small initial radius with a fast-growing search: on the first circles b_k r^-k overflows for
            # the high k (those entries carry nothing), the later circles must decide those coefficients
            yield dict(family=fam, tree=tree, singularity=sing, z0=z0, n=int(rng.integers(70, 101)),
                       r=float(10.0 ** rng.uniform(-5, -4.3)), step_ratio=float(np.round(rng.uniform(2.0, 3.0), 2)),
                       num_extrap=None, via=str(rng.choice(['taylor', 'derivative', 'Taylor'])), overflowing_start=True)
            continue
        if not default_r and rng.random() < 0.2:
            # an initial radius already close to where the search settles, with the shortest extrapolation: the search ends after
            # the minimum number of circles (few rows reach the final selection)
            yield dict(family=fam, tree=tree, singularity=sing, z0=z0, n=int(rng.integers(1, 14)),
                       r=float(10.0 ** rng.uniform(-0.7, 0.1)), step_ratio=float(np.round(rng.uniform(1.2, 3.0), 2)),
                       num_extrap=int(rng.choice([1, 1, 2])), via=str(rng.choice(['taylor', 'derivative', 'Taylor'])))
            continue
        yield dict(family=fam, tree=tree, singularity=sing, z0=z0, n=n,
                   r=None if default_r else float(10.0 ** rng.uniform(-5, 0)),
                   step_ratio=None if default_r else float(np.round(rng.uniform(1.2, 3.0), 2)),
                   num_extrap=None if default_r else int(rng.integers(1, 6)),
                   via=str(rng.choice(['taylor', 'derivative', 'Taylor'])))


def run_nested(case, ctx):
    """The expanded function is itself computed with derivative(): F(z) = d/dw f(z + w) at w = 0, element by element.
    Nothing of one expansion (scratch arrays, state) may reach another one that is in progress."""
    import numdifftools.fornberg as fb
    tree = X.from_json(case['tree'])
    f = X.compile_np(tree)
    z0 = complex(case['z0'][0], case['z0'][1]) if case['z0'][1] else case['z0'][0]
    n, inner_n = case['n'], case['inner_n']

    def F(z):
        z = np.asarray(z)
        out = np.empty(z.shape, dtype=complex)
        for idx, zk in np.ndenumerate(z):
            out[idx] = fb.derivative(lambda w: f(zk + w), 0.0, n=inner_n)[1]
        return out
    ctx.count('nested_expansions')
    try:
        with np.errstate(all='ignore'):
            coefs, info = fb.taylor(F, z0, n=n, full_output=True)
    except Exception as exc:
        ctx.reject('raised', observed='%s: %s' % (type(exc).__name__, str(exc)[:200]), exc_type=type(exc).__name__,
                   family=case['family'], n=n, nested=True)
        return
    coefs = np.asarray(coefs)
    err = np.abs(np.asarray(info.error_estimate, dtype=float))
    if coefs.ndim != 1 or len(coefs) < n + 1 or err.shape != coefs.shape:
        ctx.reject('too_few_coefficients', observed=[list(coefs.shape), list(err.shape)], expected=n + 1)
        return
    ctx.count('default_radius_status_asserted')
    if info.degenerate or info.failed:
        ctx.reject('default_radius_reported_degenerate_or_failed', observed=dict(degenerate=bool(info.degenerate), failed=bool(info.failed)),
                   detail=dict(program='d/dw ' + X.to_str(tree), z0=case['z0'], n=n, inner_n=inner_n, final_radius=float(info.final_radius),
                               iterations=int(info.iterations)), family=case['family'], n=n, nested=True,
                   failed=bool(info.failed), degenerate=bool(info.degenerate),
                   radius_search_kept_growing=bool(float(info.final_radius) >= 1.0))
        return
    try:
        exact, _ = jets.eval_jet(tree, z0, n + 1, D.jctx(), with_noise=False)
    except Exception:
        ctx.count('skipped_jet_domain')
        return
    R = float(info.final_radius)
    scale = max(abs(complex((k + 1) * exact[k + 1])) * R ** k for k in range(n + 1))
    for k in range(n + 1):
        ex = complex((k + 1) * exact[k + 1])
        e = abs(complex(coefs[k]) - ex)
        bound = K_EST * float(err[k]) + 1e-8 * scale / R ** k       # (the inner expansion is itself accurate to ~1e-12 only)
        ctx.count('nested_coefficients_asserted')
        if not e <= bound:
            ctx.reject('coefficient_outside_reported_error', observed=complex(coefs[k]), expected=ex,
                       detail=dict(k=k, err=e, reported=float(err[k]), bound=bound, R=R, nested=True), family=case['family'], n=n, k=k,
                       nested=True)
            return


def run_case(case, ctx):
    if case.get('nested'):
        return run_nested(case, ctx)
    import numdifftools.fornberg as fb
    tree = X.from_json(case['tree'])
    f = X.compile_np(tree)
    z0 = complex(case['z0'][0], case['z0'][1]) if case['z0'][1] else case['z0'][0]
    n = case['n']
    # the same expansion point / order in other legal types
    zform = ['native', 'native', 'native', 'np_scalar', 'complex0', 'zero_d', 'np_int_n'][(case['n'] * 7 + int(abs(case['z0'][0]) * 1000)) % 7]
    z0_given, n_given = z0, n
    if zform == 'np_scalar':
        z0_given = np.complex128(z0) if isinstance(z0, complex) else np.float64(z0)
    elif zform == 'complex0' and not isinstance(z0, complex):
        z0_given = complex(z0, 0.0)
    elif zform == 'zero_d':
        z0_given = np.array(z0)
    elif zform == 'np_int_n':
        n_given = np.int64(n)
    if zform != 'native':
        ctx.count('arguments_given_as:' + zform)
    kw = dict(full_output=True)
    if case['r'] is not None:
        kw.update(r=case['r'], step_ratio=case['step_ratio'], num_extrap=case['num_extrap'])
        kw = {k_: v_ for k_, v_ in kw.items() if v_ is not None}
    elif (case['n'] + int(abs(case['z0'][0]) * 1000)) % 5 == 0 and not case.get('max_iter'):
        # every default but the growth ratio, given as an integer (Python int or numpy integer): 2 and 3 are ratios like 2.0 and 3.0
        kw['step_ratio'] = [2, 3, np.int64(2), np.int32(3)][(case['n'] + int(abs(case['z0'][0]) * 100)) % 4]
        ctx.count('integer_typed_step_ratio_with_default_radius')
    if case.get('max_iter'):
        kw['max_iter'] = case['max_iter']
        ctx.count('iteration_cap_raised_explicitly')
    _T.clear()
    try:
        with np.errstate(all='ignore'):
            if case['via'] == 'Taylor':
                tobj = fb.Taylor(f, n=n_given, **kw)
                if (case['n'] + int(abs(case['z0'][0]) * 100)) % 2:
                    # the object has expanded the function about another point before (same n)
                    ctx.count('taylor_object_used_before_at_another_point')
                    try:
                        tobj((z0 + 0.37) if not isinstance(z0, complex) else (z0 - 0.21 + 0.13j))
                    except Exception:
                        pass
                    _T.clear()
                coefs, info = tobj(z0_given)
            elif case['r'] is not None and case['step_ratio'] is not None and case['num_extrap'] is not None and not case.get('max_iter') and (case['n'] + int(abs(case['z0'][0]) * 10)) % 3 == 0:
                # the documented signature taylor(fun, z0, n, r, num_extrap, step_ratio) used positionally
                ctx.count('taylor_arguments_given_positionally')
                coefs, info = fb.taylor(f, z0_given, n_given, case['r'], case['num_extrap'], case['step_ratio'], full_output=True)
            else:
                coefs, info = fb.taylor(f, z0_given, n=n_given, **kw)
            if case['via'] == 'derivative':
                dcoefs, dinfo = fb.derivative(f, z0_given, n=n_given, **kw)
    except Exception as exc:
        ctx.reject('raised', observed='%s: %s' % (type(exc).__name__, str(exc)[:200]), exc_type=type(exc).__name__,
                   family=case['family'], n=n)
        return
    coefs = np.asarray(coefs)
    err = np.abs(np.asarray(info.error_estimate, dtype=float))
    ctx.count('length_asserted')
    if coefs.ndim != 1 or len(coefs) < n + 1 or err.shape != coefs.shape:
        ctx.reject('too_few_coefficients', observed=[list(coefs.shape), list(err.shape)], expected=n + 1)
        return
    # (5) failed <=> the loop ended without convergence
    ctx.count('failed_flag_asserted')
    if 'converged' in _T:
        if bool(info.failed) != (not _T['converged']):
            ctx.reject('failed_flag_disagrees_with_convergence', observed=bool(info.failed), expected=not _T['converged'])
            return
        if info.failed and int(info.iterations) != _T['max_iter'] - 1:
            ctx.reject('failed_without_exhausting_iterations', observed=int(info.iterations), expected=_T['max_iter'] - 1)
            return
        if info.failed:
            ctx.count('status:failed')
    if info.degenerate:
        ctx.count('status:degenerate')
    # (3) derivative = taylor * k!
    if case['via'] == 'derivative':
        dcoefs = np.asarray(dcoefs)
        fact = np.array([math.factorial(k) for k in range(n + 1)], dtype=float)
        ctx.count('derivative_scaling_asserted')
        cf, ef = coefs[:n + 1] * fact, err[:n + 1] * fact
        fin = np.isfinite(cf) & np.isfinite(ef)
        derr = np.asarray(dinfo.error_estimate)[:n + 1]
        ok = (dcoefs.shape == coefs.shape and
              np.all(np.abs(dcoefs[:n + 1] - cf)[fin] <= 4 * EPS * np.abs(cf)[fin]) and
              np.all(np.abs(derr - ef)[fin] <= 4 * EPS * ef[fin]) and
              bool(dinfo.failed) == bool(info.failed) and bool(dinfo.degenerate) == bool(info.degenerate))
        if not ok:
            ctx.reject('derivative_is_not_taylor_times_factorial', observed=dcoefs[:5], expected=cf[:5],
                       detail=dict(err=derr[:5], expected_err=ef[:5]))
            return
    # (4) default radius, n <= 20, non-polynomial, analytic within 1.5 => neither degenerate nor failed
    if case['r'] is None and n <= 20 and case['family'] != 'poly':
        ctx.count('default_radius_status_asserted')
        if info.degenerate or info.failed:
            ctx.reject('default_radius_reported_degenerate_or_failed', observed=dict(degenerate=bool(info.degenerate),
                                                                                     failed=bool(info.failed)),
                       detail=dict(program=X.to_str(tree), z0=case['z0'], n=n, final_radius=float(info.final_radius),
                                   iterations=int(info.iterations)), family=case['family'], n=n,
                       failed=bool(info.failed), degenerate=bool(info.degenerate),
                   radius_search_kept_growing=bool(float(info.final_radius) >= 1.0))
            return
    if info.degenerate or info.failed:
        return
    # (2) accuracy within the reported error + FFT rounding floor on the final circle
    K = len(coefs) - 1
    try:
        exact, _ = jets.eval_jet(tree, z0, K, D.jctx(), with_noise=False)
    except Exception:
        ctx.count('skipped_jet_domain')
        return
    rs = _T.get('rs') or []
    if not rs:
        ctx.count('skipped_no_radius_observed')
        return
    R = float(min(rs[-3:]))       # the three last circles enter the final Richardson extrapolation
    R_last = float(rs[-1])
    theta = np.linspace(0, 2 * np.pi, 64, endpoint=False)
    with np.errstate(all='ignore'):
        fmax = float(np.max(np.abs(f(z0 + R_last * np.exp(1j * theta)))))
    if not np.isfinite(fmax):
        ctx.count('skipped_nonfinite_on_final_circle')
        return
    sing_ = case.get('singularity')
    if isinstance(sing_, (list, tuple)):
        sing_ = complex(sing_[0], sing_[1])
    if case['family'] == 'inv_close':
        ctx.count('expansions_with_initial_radius_beyond_a_close_pole')
    worst, at = 0.0, None
    for k in range(0, n + 1):
        ex = complex(exact[k])
        e = abs(complex(coefs[k]) - ex)
        bound = K_EST * err[k] + C_FLOOR * EPS * fmax / (R / R_SHRINK) ** k
        ctx.count('coefficients_asserted')
        r = e / bound if bound > 0 else (0.0 if e == 0 else math.inf)
        vanished = abs(complex(coefs[k])) <= 1e-6 * abs(ex) and err[k] <= 1e-3 * abs(ex)
        crossing = sing_ is not None and max(rs) >= abs(sing_ - z0)
        if not vanished and not crossing and fmax > 0:
            kb = 'k<8' if k < 8 else 'k<16' if k < 16 else 'k<32' if k < 32 else 'k<64' if k < 64 else 'k>=64'
            ctx.maximum('(err - K*reported)/(eps*fmax/R^k):' + kb, max(e - K_EST * err[k], 0.0) / (EPS * fmax / R ** k),
                        dict(case=case, k=k))
        if r > worst:
            worst, at = r, dict(k=k, observed=complex(coefs[k]), expected=ex, err=e, reported=float(err[k]), bound=bound)
    ctx.maximum('coef_err/bound:%s' % case['family'], worst, dict(case=case, at=at, R=R))
    if worst > 1:
        kk = at['k']
        ctx.reject('coefficient_outside_reported_error', observed=at['observed'], expected=at['expected'],
                   detail=dict(at, R=R, fmax=fmax, program=X.to_str(tree), iterations=int(info.iterations)),
                   family=case['family'], n=n, k=kk, coefficient_is_exactly_zero=bool(coefs[kk] == 0),
                   radius_search_went_beyond_nearest_singularity=bool(sing_ is not None and max(rs) >= abs(sing_ - z0)),
                   initial_radius_beyond_nearest_singularity=bool(sing_ is not None and rs[0] >= abs(sing_ - z0)),
                   reported_error_is_zero=bool(err[kk] == 0), k_is_power_of_two=bool(kk >= 8 and (kk & (kk - 1)) == 0),
                   coefficient_vanished=bool(abs(complex(coefs[kk])) <= 1e-6 * abs(at['expected'])
                                             and err[kk] <= 1e-1 * abs(at['expected'])),
                   k_is_multiple_of_eighth_of_fft_length=bool(kk > 0 and kk % max(len(coefs) // 8, 1) == 0),
                   table_holds_a_zero_where_the_scaling_overflowed=_zero_where_overflow(kk))
        return
    rb = 0 if case['r'] is None else int(math.floor(math.log10(case['r'])))
    ctx.nontrivial((case['family'], n // 10, rb, bool(case['z0'][1])))
    if len(ctx.samples) < 3:
        ctx.sample(dict(program=X.to_str(tree), z0=case['z0'], n=n, r=case['r'], coefs=coefs[:4], exact=[complex(v) for v in exact[:4]],
                        reported_error=err[:4], final_radius=float(info.final_radius), iterations=int(info.iterations)))


def _zero_where_overflow(k):
    """The observed table of scaled FFT bins (one row per circle) holds an exact zero for coefficient k on a circle whose r**-k is
    not finite."""
    rs, bs = _T.get('rs') or [], _T.get('bs') or []
    with np.errstate(all='ignore'):
        for r_, b_ in zip(rs, bs):
            if k < len(b_) and b_[k] == 0 and not np.isfinite(np.power(float(r_), -float(k))):
                return True
    return False


def classify(wit):
    f = wit.get('facts') or {}
    if f.get('initial_radius_beyond_nearest_singularity') and f.get('coefficient_vanished'):
        # not the listed mechanism: the early radii are not small (their bins hold garbage of the size of f, not zeros); a coefficient
        # that vanished here was taken from a circle that encloses the singularity
        return None
    if wit.get('check') == 'coefficient_outside_reported_error' and f.get('coefficient_vanished') \
            and not f.get('table_holds_a_zero_where_the_scaling_overflowed'):
        # (bins that are numerically zero on small circles; a zero in the table on a circle where r**-k is inf is something else:
        # 0 * inf and noise * inf are nan and inf, which the selection skips)
        return 'fft-bin-exact-zero-on-early-radii'
    if wit.get('check') == 'coefficient_outside_reported_error' and f.get('radius_search_went_beyond_nearest_singularity'):
        return 'radius-search-crosses-singularity'
    if wit.get('check') == 'default_radius_reported_degenerate_or_failed' and f.get('failed') and not f.get('degenerate') \
            and f.get('radius_search_kept_growing'):
        return 'radius-search-exhausts-iterations'
    return None


TECHNIQUE = ('runtime monitoring: contracts on taylor / derivative / Taylor returns, sys.monitoring observer on the frame of '
             'Taylor.__call__ (radii used, converged flag); jet oracle over complex 50-digit arithmetic')
LEVEL_TEXT = ('exploration: every returned coefficient of every observed run is decided against exact Taylor coefficients within '
              'the reported error plus the FFT rounding floor on the observed final circle; status flags against the observed loop state')
LEVEL_NOTE = 'trusts mpmath complex arithmetic and the jet recurrences; K = 100, C = 30 and the 1.17^k growth calibrated on the unchanged tree'
