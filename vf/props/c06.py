"""C06 - finite-difference rules are exact to their stated order and match Richardson.

(a) moments, exact: with the returned float weights w_i and r = fl(fl(ratio+1)-1),
        m_d = kappa_d/d! * sum_i w_i r^(-i d)
    where kappa_d is the response of the method's difference quotient to t^d at unit step
    (from the definition of the quotient, table below).  m_n = 1, m_d = 0 for the other
    d < n + method_order, and for larger d only d - n in {method_order + spacing*j} may
    survive; the first of them must survive.
(b) end to end, floating: the real `diff` on monomials t^d/d! at geometric steps through the
    real `apply` reproduces m_d * h^(d-n) (= [d == n] below the truncation order).
(c) pairing: the Richardson object Derivative builds has order == leading surviving power
    and every surviving power lies on its exponent lattice.
"""
from fractions import Fraction
import math

import numpy as np

from vf.oracle.exact import F, to_float

ID = 'C06'
NSHARDS = dict(quick=8, thorough=16)
BUDGET = dict(quick=800, thorough=20000)           # random ratios on top of the complete grid
ANCHORS = ['numdifftools.finite_difference:LogRule._fd_matrix', 'numdifftools.finite_difference:LogRule.rule',
           'numdifftools.finite_difference:LogRule._parity', 'numdifftools.finite_difference:LogRule._parity_complex',
           'numdifftools.finite_difference:LogRule._flip_fd_rule', 'numdifftools.finite_difference:LogRule.richardson_step',
           'numdifftools.finite_difference:LogRule.method_order', 'numdifftools.finite_difference:LogRule._apply',
           'numdifftools.core:Derivative.set_richardson_rule']
MIN_COUNTERS = dict(quick={'moments_asserted': 10000, 'end_to_end_asserted': 30000, 'pairing_asserted': 1500, 'multivariate_pairing_asserted': 800, 'hessian_pairing_asserted': 30, 'pairing_after_switch_asserted': 1200,
                           'leading_power_asserted': 1500, 'parity_class:0': 100, 'parity_class:1': 50,
                           'parity_class:2': 50, 'parity_class:3': 20, 'parity_class:4': 20, 'parity_class:5': 20,
                           'parity_class:6': 20, 'flipped_rules': 100},
                    thorough={'moments_asserted': 100000})
EXHAUSTIVE = dict(quick=True, thorough=False)
EXHAUSTIVE_NOTE = ('grid {central, forward, backward, complex} x n 1..10 x order 1..10 x ratio in '
                   '{1.2,1.3,1.6,2,2.5,3,4,7.3,10} enumerated completely in both tiers; thorough adds random real ratios')
RULE = ('The Richardson pairing is asserted on a fresh object, on an object that reached the configuration through setters, and for every shorter rule rule(L), L <= terms + 1. ' 
        'complete grid of 3600 rules (see exhaustive_part), first with the rule cache exactly as a fresh interpreter provides it, then a third of the grid again after emptying the cache; per rule all monomials t^d/d!, d = 0..n+order+4*spacing. '
        'distinct non-trivial = (method, parity class, n, order, ratio) with >= 2 weights and a numerically '
        'non-singular moment matrix')
ASSUMPTIONS = ['kappa_d table derived from the definition of each difference quotient (forward, backward, central odd/even, '
               'complex-step first order, and the four sqrt(i)-rotated complex quotients); exact in Z',
               'numerically non-singular means cond_2(moment matrix) < 0.1/(T*eps), i.e. a factor 10 inside the range where numpy.linalg.pinv keeps all singular values; other cells are counted as skipped_singular (measured: residuals <= 4*eps*scale inside, up to 1.0 outside)',
               'rounding bound C*eps*max_d cond_d with cond_d = sum_i |w_i| r^(-i d) |kappa_d|/d!, C calibrated (30x head-room)']
RATIOS = [1.2, 1.3, 1.6, 2.0, 2.5, 3.0, 4.0, 7.3, 10.0]
METHODS = ['central', 'forward', 'backward', 'complex']
EPS = 2.0 ** -52
C_MOM = 128.0
C_E2E = 32.0


# ------------------------------------------------------------------------------ definitions
def quotient_class(method, n, order):
    if method in ('forward', 'backward'):
        return method, 1
    if method == 'central':
        return ('central_odd' if n % 2 else 'central_even'), 2
    # complex
    if n == 1 and order < 4:
        return 'complex1', 2
    return {1: 'complex_odd', 3: 'complex_odd_higher', 2: 'complex_even', 0: 'complex_even_higher'}[n % 4], 4


def kappa(qclass, d):
    if qclass == 'forward':
        return 1 if d >= 1 else 0
    if qclass == 'backward':
        return (1 if d % 2 else -1) if d >= 1 else 0
    if qclass == 'central_odd':
        return 1 if d % 2 else 0
    if qclass == 'central_even':
        return 1 if (d % 2 == 0 and d >= 2) else 0
    if qclass == 'complex1':          # Im(i^d)
        return {1: 1, 3: -1}.get(d % 4, 0)
    if qclass == 'complex_odd':       # Im(i^((d+1)/2)), odd d
        return {1: 1, 5: -1}.get(d % 8, 0)
    if qclass == 'complex_odd_higher':  # 6 Re(i^((d+1)/2)), odd d
        return {3: -6, 7: 6}.get(d % 8, 0)
    if qclass == 'complex_even':      # 2 Im(i^(d/2)), even d
        return {2: 2, 6: -2}.get(d % 8, 0)
    if qclass == 'complex_even_higher':  # 24 Re(i^(d/2)), even d >= 2
        if d >= 2:
            return {4: -24, 0: 24}.get(d % 8, 0)
        return 0
    raise KeyError(qclass)


def moment_system(method, n, order, ratio):
    """(cond_2, T, numerically_singular) of the moment system the rule for this configuration has to solve, from the
    definitions alone (used by C01 to recognise configurations whose delivered rule cannot have its formal order)."""
    if method == 'multicomplex':
        return 1.0, 1, False
    qclass, spacing = quotient_class(method, n, order)
    mo = max((order // spacing) * spacing, spacing)
    live = [d for d in range(1, n + mo) if kappa(qclass, d) != 0]
    T = len(live)
    r = (float(ratio) + 1.0) - 1.0
    if T <= 1 or not r > 1:
        return 1.0, T, False
    M = np.array([[kappa(qclass, d) / math.factorial(d) * r ** (-i * d) for i in range(T)] for d in live])
    sv = np.linalg.svd(M, compute_uv=False)
    cond2 = float(sv[0] / sv[-1]) if sv[-1] > 0 else math.inf
    return cond2, T, bool(cond2 >= 0.1 / (T * EPS))


_RULE_RATIOS = None       # while a list: the step ratios LogRule.rule is asked for (observer)


def setup(ctx, mon):
    import numdifftools  # noqa

    def on_fd(frame, ret):
        ctx.count('parity_class:%d' % frame.f_locals.get('parity', -1))
    def on_rule(frame):
        if _RULE_RATIOS is not None:
            _RULE_RATIOS.append(frame.f_locals.get('step_ratio'))
    for a in ANCHORS:
        mon.watch(a, on_return=on_fd if a.endswith('_fd_matrix') else None,
                  on_start=on_rule if a.endswith('LogRule.rule') else None)


def cases(rng, tier, shard, nshards):
    k = 0
    for method in METHODS:
        for n in range(1, 11):
            for order in range(1, 11):
                for ratio in RATIOS:
                    if k % nshards == shard:
                        yield dict(method=method, n=n, order=order, ratio=ratio, grid=True, clear=False)
                    k += 1
    # second pass over a third of the grid with the rule cache emptied first: the rule must be right both from the
    # cache state a fresh interpreter starts with (first pass: nothing is cleared before it) and when recomputed
    k = 0
    for method in METHODS:
        for n in range(1, 11):
            for order in range(1, 11):
                for ratio in RATIOS:
                    if k % nshards == shard and (k // nshards) % 3 == 0:
                        yield dict(method=method, n=n, order=order, ratio=ratio, grid=True, clear=True)
                    k += 1
    for i in range(BUDGET[tier] // nshards):
        c = dict(method=str(rng.choice(METHODS)), n=int(rng.integers(1, 11)), order=int(rng.integers(1, 11)),
                 ratio=float(np.exp(rng.uniform(math.log(1.05), math.log(10.0)))), grid=False, clear=bool(rng.random() < 0.3))
        yield c
        if i % 4 == 0:
            # ... and, in the same process, nearly the same ratio (equal to 4 .. 9 decimals): every ratio has its own rule
            yield dict(c, ratio=float(c['ratio'] * (1.0 + float(rng.choice([-1, 1])) * 10.0 ** rng.uniform(-9, -4.3))), clear=False, near=True)
    for j, r0 in enumerate(RATIOS):
        if j % nshards == shard % len(RATIOS) or True:
            for method in ('central', 'forward'):
                yield dict(method=method, n=1, order=4, ratio=float(r0 * (1.0 + 2e-5)), grid=False, clear=False, near=True)


def run_case(case, ctx):
    import numdifftools as nd
    from numdifftools import finite_difference as fdm
    from numdifftools.finite_difference import LogRule
    method, n, order, ratio = case['method'], case['n'], case['order'], case['ratio']
    if case.get('clear'):
        fdm.FD_RULES.clear()
        ctx.count('rules_recomputed_after_clearing_the_cache')
    else:
        ctx.count('rules_taken_with_the_cache_as_found')
    try:
        if (n + 2 * order) % 3 == 0:
            # n and order handed over as numpy integers (elements of np.arange, np.int32): integers like any other
            ctx.count('n_and_order_as_numpy_integers')
            rule_obj = LogRule(n=np.arange(n, n + 1)[0], method=method, order=np.int32(order) if order % 2 else np.int64(order))
        else:
            rule_obj = LogRule(n=n, method=method, order=order)
        w = np.asarray(rule_obj.rule(ratio), dtype=float)
        method_order = int(rule_obj.method_order)
        rstep = int(rule_obj.richardson_step)
        diff = rule_obj.diff
    except Exception as exc:
        ctx.reject('rule_raised', observed=repr(exc))
        return
    qclass, spacing = quotient_class(method, n, order)
    if rule_obj._flip_fd_rule:
        ctx.count('flipped_rules')
    T = len(w)
    r = (ratio + 1.0) - 1.0
    Fr_inv = 1 / F(r)
    dmax = n + order + 4 * spacing
    fw = [F(float(v)) for v in w]
    # ---- conditioning of the moment system (from the definitions, independent of the code)
    live = [d for d in range(1, n + method_order) if kappa(qclass, d) != 0]
    if len(live) != T:
        ctx.reject('rule_length_differs_from_number_of_powers_to_match', observed=T, expected=len(live),
                   detail=dict(qclass=qclass, method_order=method_order))
        return
    M = np.array([[kappa(qclass, d) / math.factorial(d) * r ** (-i * d) for i in range(T)] for d in live])
    # "numerically non-singular": the pseudo-inverse keeps every singular value (numpy drops those below
    # max(M,N)*eps*sigma_max); a factor 10 margin below that truncation threshold
    sv = np.linalg.svd(M, compute_uv=False)
    cond2 = float(sv[0] / sv[-1]) if sv[-1] > 0 else math.inf
    if not np.all(np.isfinite(w)):
        ctx.reject('nonfinite_weights', observed=w)
        return
    if cond2 >= 0.1 / (T * EPS):
        ctx.count('skipped_singular')
        return
    # ---- (a) exact moments -------------------------------------------------------------------
    moments, conds = {}, {}
    for d in range(0, dmax + 1):
        k_d = kappa(qclass, d)
        if k_d == 0:
            moments[d], conds[d] = Fraction(0), 0.0
            continue
        base = Fr_inv ** d
        acc, cacc, cur = Fraction(0), Fraction(0), Fraction(1)
        for wi in fw:
            acc += wi * cur
            cacc += abs(wi) * cur
            cur *= base
        fact = math.factorial(d)
        moments[d] = acc * k_d / fact
        conds[d] = to_float(cacc * abs(k_d) / fact)
    scale = max(conds[d] for d in range(0, n + method_order))
    if n not in live:
        ctx.reject('derivative_power_not_in_quotient_class', detail=dict(qclass=qclass))
        return
    worst, worst_d = 0.0, None
    for d in range(0, n + method_order):
        target = 1 if d == n else 0
        err = to_float(abs(moments[d] - target))
        ratio_ = err / (C_MOM * EPS * scale)
        ctx.count('moments_asserted')
        if ratio_ > worst:
            worst, worst_d = ratio_, d
    ctx.maximum('moment_err/bound:%s' % method, worst, dict(case=case, d=worst_d))
    if worst > 1:
        ctx.reject('not_exact_below_method_order', observed=to_float(moments[worst_d]),
                   expected=1 if worst_d == n else 0,
                   detail=dict(d=worst_d, qclass=qclass, method_order=method_order, weights=w, bound=C_MOM * EPS * scale),
                   method=method, method_order=method_order, requested_order=order, spacing=spacing)
        return
    # surviving error powers
    surviving = []
    for d in range(n + method_order, dmax + 1):
        if conds[d] == 0.0:
            continue
        if to_float(abs(moments[d])) > 1e3 * C_MOM * EPS * conds[d]:
            surviving.append(d - n)
    lattice_ok = all((p - method_order) % rstep == 0 and p >= method_order for p in surviving)
    ctx.count('leading_power_asserted')
    if not surviving or surviving[0] != method_order:
        ctx.reject('leading_error_power_is_not_method_order', observed=surviving[:4], expected=method_order,
                   detail=dict(qclass=qclass))
        return
    if not lattice_ok:
        ctx.reject('error_power_off_the_richardson_lattice', observed=surviving, expected=[method_order, rstep],
                   detail=dict(qclass=qclass))
        return
    if rstep != spacing:
        ctx.reject('exponent_spacing', observed=rstep, expected=spacing, detail=dict(qclass=qclass))
        return
    # requested order
    if method_order < order:
        ctx.reject('truncation_order_below_requested', observed=method_order, expected=order,
                   detail=dict(qclass=qclass), method=method, method_order=method_order, requested_order=order,
                   spacing=spacing)
        # keep going: the rule is still checked against its reported order
    # ---- (c) pairing with Richardson ------------------------------------------------------------
    try:
        dobj = nd.Derivative(np.exp, method=method, n=n, order=order, step=nd.MinStepGenerator(
            base_step=0.25, step_ratio=ratio, num_steps=T + 4))
        dobj(0.5)
        rich = dobj.richardson
        ctx.count('pairing_asserted')
        if int(rich.order) != surviving[0] or any((p - int(rich.order)) % int(rich.step) for p in surviving):
            ctx.reject('richardson_not_matched_to_surviving_powers', observed=[int(rich.order), int(rich.step)],
                       expected=surviving[:4])
            return
        if abs(float(rich.step_ratio) - r) > 0:
            ctx.reject('richardson_step_ratio_differs_from_rule_ratio', observed=float(rich.step_ratio), expected=r)
            return
        # with fewer estimates than terms + 1 the stage works with correspondingly fewer terms: those must be the *leading*
        # surviving powers (whatever is left of the table when steps are scarce still has to remove h^method_order first)
        for L in range(2, int(rich.num_terms) + 2):
            wL = np.asarray(rich.rule(L), dtype=float)
            if len(wL) != min(int(rich.num_terms), L - 1) + 1:
                ctx.reject('richardson_short_rule_length', observed=len(wL), expected=min(int(rich.num_terms), L - 1) + 1)
                return
            sa = float(np.sum(np.abs(wL)))
            if EPS * sa > 1e-6:
                continue
            ctx.count('short_richardson_rules_asserted')
            if abs(float(np.sum(wL)) - 1.0) > 1e-9 * sa:
                ctx.reject('richardson_short_rule_does_not_sum_to_one', observed=wL, detail=dict(length=L))
                return
            for j in range(len(wL) - 1):
                p = surviving[j] if j < len(surviving) else surviving[0] + j * int(rich.step)
                mom = float(sum(wL[i] * r ** (-i * p) for i in range(len(wL))))
                if abs(mom) > 1e-7 * sa:
                    ctx.reject('richardson_short_rule_leaves_a_leading_power', observed=wL, expected=p,
                               detail=dict(length=L, power=p, moment=mom, surviving=surviving[:4]))
                    return
    except Exception as exc:
        ctx.count('pairing_call_raised:%s' % type(exc).__name__)
    # the same pairing in the multivariate classes (they build steps, rule and Richardson stage in their own methods): the rule is
    # asked for with the ratio of the generated steps, the Richardson stage carries it too, and the class differentiates a
    # polynomial of degree < n + order exactly through the whole pipeline
    global _RULE_RATIOS
    mv = {1: ['Gradient', 'Jacobian'], 2: ['Hessdiag']}.get(n, [])
    if mv and not (n == 2 and method == 'complex' and order > 2 and False):
        cname = mv[(order + int(10 * ratio)) % len(mv)]
        deg = max(1, min(n + order - 1, 5))
        coef = [1.0, -0.75]

        def fpoly(x):
            x = np.asarray(x)
            v = coef[0] * x[0] ** deg + coef[1] * x[1] ** deg + 0.5 * x[0] + 0.25 * x[1] * x[1]
            return np.array([v, 2.0 * v]) if cname == 'Jacobian' else v
        x0 = np.array([0.5, -0.3])
        if n == 1:
            exact = np.array([coef[0] * deg * x0[0] ** (deg - 1) + 0.5, coef[1] * deg * x0[1] ** (deg - 1) + 0.5 * x0[1]])
        else:
            exact = np.array([coef[0] * deg * (deg - 1) * x0[0] ** max(deg - 2, 0) if deg >= 2 else 0.0,
                              (coef[1] * deg * (deg - 1) * x0[1] ** max(deg - 2, 0) if deg >= 2 else 0.0) + 0.5])
        _RULE_RATIOS = []
        try:
            mobj = getattr(nd, cname)(fpoly, method=method, order=order, step=nd.MinStepGenerator(
                base_step=0.25, step_ratio=ratio, num_steps=T + 4))
            got = np.asarray(mobj(x0), dtype=float)
            seen = list(_RULE_RATIOS)
            _RULE_RATIOS = None
            ctx.count('multivariate_pairing_asserted')
            ctx.count('multivariate_pairing_class:' + cname)
            if abs(float(mobj.richardson.step_ratio) - r) > 0:
                ctx.reject('richardson_step_ratio_differs_from_rule_ratio', observed=float(mobj.richardson.step_ratio), expected=r,
                           detail=dict(cls=cname))
                return
            # ... and the rule the object applies is the rule of the configuration it was asked for (n, method, order)
            w_mv = np.asarray(mobj.fd_rule.rule(ratio), dtype=float)
            if int(mobj.method_order) != method_order or w_mv.shape != w.shape or \
                    not np.allclose(w_mv, w, rtol=1e-9, atol=1e-12 * float(np.max(np.abs(w)))):
                ctx.reject('rule_of_a_multivariate_object_differs_from_the_rule_of_its_configuration', observed=w_mv, expected=w,
                           detail=dict(cls=cname, method_order=int(mobj.method_order), expected_method_order=method_order))
                return
            bad = [float(v) for v in seen if v is not None and abs(float(v) - ratio) > 4 * EPS * ratio]
            if bad or not seen:
                ctx.reject('rule_requested_for_another_ratio_than_the_steps_have', observed=bad or 'rule never requested', expected=ratio,
                           detail=dict(cls=cname))
                return
            row = got[0] if cname == 'Jacobian' else got
            err = float(np.max(np.abs(row - exact)))
            if method_order >= order and not err <= 1e-3 * (1.0 + float(np.max(np.abs(exact)))):      # (coarse: rounding of the smallest steps of ratio 10 reaches 1e-5)
                ctx.reject('multivariate_class_not_exact_below_method_order', observed=row, expected=exact,
                           detail=dict(cls=cname, degree=deg, err=err))
                return
        except Exception as exc:
            _RULE_RATIOS = None
            ctx.count('multivariate_pairing_call_raised:%s' % type(exc).__name__)
    # the Hessian class has its own rule class and difference quotients (error powers h^2, h^4, ... for the central and for both
    # complex-step formulas): the Richardson stage it builds starts at the leading power its quotient really has, measured here
    # from two single-step evaluations (h and h/2) of exp(x + 2y)
    if n == 2 and method in ('central', 'complex') and order == 2:
        try:
            fh = lambda t: np.exp(t[0] + 2.0 * t[1])
            xh = np.array([0.3, -0.2])
            Hx = math.exp(xh[0] + 2.0 * xh[1]) * np.array([[1.0, 2.0], [2.0, 4.0]])
            for hm in ([method] + (['central2', 'multicomplex'] if method == 'central' else [])):
                errs = []
                for h_ in (0.1, 0.05):
                    Hh = nd.Hessian(fh, method=hm, step=nd.MinStepGenerator(base_step=h_, num_steps=1, step_nom=1.0))(xh)
                    errs.append(float(np.max(np.abs(np.asarray(Hh) - Hx))))
                slope = math.log2(errs[0] / errs[1])
                ho = nd.Hessian(fh, method=hm, step=nd.MinStepGenerator(base_step=0.1, step_ratio=ratio, num_steps=4, step_nom=1.0))
                ho(xh)
                ctx.count('hessian_pairing_asserted')
                if abs(slope - int(ho.richardson.order)) > 0.5 or int(ho.richardson.step) != 2 or abs(float(ho.richardson.step_ratio) - r) > 0:
                    ctx.reject('richardson_not_matched_to_surviving_powers', observed=[int(ho.richardson.order), int(ho.richardson.step)],
                               expected=[round(slope, 2), 2], detail=dict(cls='Hessian', method=hm, measured_leading_power=slope))
                    return
        except Exception as exc:
            ctx.count('hessian_pairing_raised:%s' % type(exc).__name__)
    # the same configuration reached through the setters of an object that has already been used with another
    # method (and possibly another order): the Richardson stage must be the one paired with the rule it now applies
    prng = np.random.default_rng(int(case.get('seed', 0)) + 17 * n + order)
    try:
        m0 = str(prng.choice([m for m in ('central', 'forward', 'backward', 'complex') if m != method]))
        o0 = order if prng.random() < 0.6 else int(prng.integers(1, 9))
        dsw = nd.Derivative(np.exp, method=m0, n=n, order=o0, step=nd.MinStepGenerator(
            base_step=0.25, step_ratio=ratio, num_steps=T + 12))
        try:
            dsw(0.5)
        except Exception:
            pass
        dsw.method = method
        if o0 != order:
            dsw.order = order
        dsw(0.5)
        rich = dsw.richardson
        ctx.count('pairing_after_switch_asserted')
        # ... and the rule the switched object now applies is the rule of its present configuration
        w_sw = np.asarray(dsw.fd_rule.rule(ratio), dtype=float)
        if w_sw.shape != w.shape or not np.allclose(w_sw, w, rtol=1e-9, atol=1e-12 * float(np.max(np.abs(w)))):
            ctx.reject('rule_of_a_switched_object_differs_from_a_fresh_rule', observed=w_sw, expected=w,
                       detail=dict(reached_by='setters', from_method=m0, from_order=o0))
            return
        if int(rich.order) != surviving[0] or any((p - int(rich.order)) % int(rich.step) for p in surviving):
            ctx.reject('richardson_not_matched_to_surviving_powers', observed=[int(rich.order), int(rich.step)],
                       expected=surviving[:4], detail=dict(reached_by='setters', from_method=m0, from_order=o0))
            return
    except Exception as exc:
        ctx.count('pairing_after_switch_call_raised:%s' % type(exc).__name__)
    # ---- (b) end to end through the real diff + apply -------------------------------------------
    nsteps = T + 2
    h0 = 0.5
    hs = np.array([h0 * r ** (-k) for k in range(nsteps)])
    worst, worst_at = 0.0, None
    for d in range(0, dmax + 1):
        fact = float(math.factorial(d))

        def mono(t, d=d, fact=fact):
            return t ** d / fact
        try:
            f0 = mono(0.0) if d > 0 else 1.0
            seq = [diff(mono, f0, 0.0, h) for h in hs]
            der, hh, _ = rule_obj.apply(seq, list(hs), ratio)
        except Exception as exc:
            ctx.reject('apply_raised', observed=repr(exc), detail=dict(d=d))
            return
        der = np.asarray(der).ravel()
        if len(der) != nsteps - (T - 1):
            ctx.reject('apply_output_length', observed=len(der), expected=nsteps - (T - 1))
            return
        for k in range(len(der)):
            hk = float(hs[k])
            expected = to_float(moments[d]) * hk ** (d - n) if d >= n + method_order else (1.0 if d == n else 0.0)
            bound = C_E2E * EPS * (1 + d * T) * max(conds[d], scale if d < n + method_order else 0.0,
                                                     1e-300) * hk ** (d - n)
            err = abs(float(der[k]) - expected)
            ctx.count('end_to_end_asserted')
            ratio_ = err / bound if bound > 0 else (0.0 if err == 0 else math.inf)
            if ratio_ > worst:
                worst, worst_at = ratio_, dict(d=d, k=k, observed=float(der[k]), expected=expected, bound=bound)
    ctx.maximum('end_to_end_err/bound:%s' % method, worst, dict(case=case, at=worst_at))
    if worst > 1:
        ctx.reject('difference_quotient_through_rule_not_exact', observed=worst_at['observed'],
                   expected=worst_at['expected'], detail=dict(worst_at, diff=getattr(diff, '__name__', '?'),
                                                              qclass=qclass))
        return
    # ---- (b'') the same at a matrix of points that is not C-contiguous (Fortran order, a transposed view): the quotients inherit the
    # layout of x, the rule is applied element by element all the same
    if order <= 4 and n <= 4 and T <= 3 and float(ratio) in (2.0, 3.0, 1.6):
        xm = np.array([[0.1, -0.2, 0.3], [0.4, 0.5, -0.6]])
        for xl, lname in ((np.asfortranarray(xm), 'fortran'), (np.ascontiguousarray(xm.T).T, 'transposed_view')):
            d_ = n + 1
            fact_ = float(math.factorial(d_))

            def mono1(t):
                return t ** d_ / fact_
            try:
                seq_m = [diff(mono1, mono1(xl), xl, h_) for h_ in hs]
                der_m, _hm, _ = rule_obj.apply(seq_m, [np.full(xl.shape, float(h_)) for h_ in hs], ratio)
                der_m = np.asarray(der_m)
                ctx.count('non_contiguous_points_asserted')
                # the n-th derivative of t^(n+1)/(n+1)! is t: the first estimate (largest steps) is exact below the truncation order
                if method_order >= 2 or method in ('central', 'complex'):
                    got_m = der_m[-1].reshape(xm.shape) if der_m.ndim >= 2 else der_m.reshape(xm.shape)
                    if not np.all(np.abs(got_m - xm) <= 1e-6):
                        ctx.reject('difference_quotient_through_rule_not_exact', observed=got_m, expected=xm,
                                   detail=dict(layout=lname, degree=d_, note='values land on other elements'))
                        return
            except Exception as exc:
                ctx.count('non_contiguous_points_raised:%s' % type(exc).__name__)
    # ---- (b') the same with integer-typed data: an integer point, integral steps (integral ratio) and a polynomial with integer
    # coefficients give difference quotients of integer dtype for the one-sided rules; the rule applied to them is the same rule
    if method in ('forward', 'backward') and float(ratio).is_integer() and n + method_order <= 6 and T <= 4:
        ri = int(ratio)
        his = [ri ** (T + 1 - k) for k in range(T + 2)]                 # descending integral steps
        deg = n + method_order - 1
        cint = [3, -2, 5, 1, -4, 2, 1][:deg + 1]
        x_int = 2

        def pint(t):
            v_ = 0 * t
            for k_, c_ in enumerate(cint):
                v_ = v_ + c_ * t ** k_
            return v_
        # exact n-th derivative at x_int
        exact_i = 0
        for k_, c_ in enumerate(cint):
            if k_ >= n:
                exact_i += c_ * math.factorial(k_) // math.factorial(k_ - n) * x_int ** (k_ - n)
        try:
            seq_i = [diff(pint, pint(np.int64(x_int)), np.int64(x_int), np.int64(h_)) for h_ in his]
            der_i, _hh, _ = rule_obj.apply(seq_i, [float(h_) for h_ in his], ratio)
            der_i = np.asarray(der_i, dtype=float).ravel()
            ctx.count('integer_typed_quotients_asserted')
            scale_i = sum(abs(c_) * (x_int + his[0]) ** k_ for k_, c_ in enumerate(cint)) * float(np.sum(np.abs(w))) / float(his[-1]) ** n
            if not np.all(np.abs(der_i - exact_i) <= 1e-9 * max(scale_i, 1.0)):
                ctx.reject('difference_quotient_through_rule_not_exact', observed=der_i, expected=exact_i,
                           detail=dict(integer_typed=True, steps=his, degree=deg, quotient_dtype=str(np.asarray(seq_i[0]).dtype)))
                return
        except Exception as exc:
            ctx.count('integer_typed_quotients_raised:%s' % type(exc).__name__)
    parity = {'forward': 0, 'backward': 0, 'central_odd': 1, 'central_even': 2, 'complex1': 1 if n % 2 else 2,
              'complex_even': 3, 'complex_even_higher': 4, 'complex_odd': 5, 'complex_odd_higher': 6}[qclass]
    if T >= 2:
        ctx.nontrivial((method, parity, n, order, ratio))
    if len(ctx.samples) < 2:
        ctx.sample(dict(case=case, weights=w, quotient=qclass, method_order=method_order,
                        surviving_error_powers=surviving[:5], cond2=cond2))


def classify(wit):
    if wit.get('check') == 'truncation_order_below_requested':
        f = wit.get('facts') or {}
        sp, o, mo = f.get('spacing'), f.get('requested_order'), f.get('method_order')
        if f.get('method') in ('central', 'complex') and sp in (2, 4) and o is not None and o % sp != 0 \
                and mo == max((o // sp) * sp, sp) and mo < o:
            return 'order-floored-to-exponent-spacing'
    return None


TECHNIQUE = ('runtime monitoring: contracts on LogRule.rule/apply and Derivative.richardson; exact-rational moment oracle '
             'on the returned float weights; end-to-end monomial probes through the real difference functions')
LEVEL_TEXT = ('exploration with a completely enumerated configuration grid: every rule of the 3600-cell grid is decided by '
              'exact moment identities on its float weights and by running the real difference quotient on monomials')
LEVEL_NOTE = 'trusts CPython Fraction arithmetic and the kappa table (definition of each quotient); singular cells skipped'
