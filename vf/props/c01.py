"""C01 - Derivative returns the true n-th derivative within the accuracy envelope."""
import math
import os

import numpy as np

from vf import expr as X
from vf.props import _deriv as D

ID = 'C01'
NSHARDS = dict(quick=16, thorough=16)
BUDGET = dict(quick=4800, thorough=200000)
ANCHORS = ['numdifftools.finite_difference:LogRule.diff', 'numdifftools.finite_difference:LogRule._fd_matrix',
           'numdifftools.finite_difference:LogRule.rule', 'numdifftools.finite_difference:LogRule._flip_fd_rule',
           'numdifftools.finite_difference:LogRule._apply', 'numdifftools.limits:_Limit._extrapolate',
           'numdifftools.limits:_Limit._get_best_estimate', 'numdifftools.limits:_Limit._add_error_to_outliers',
           'numdifftools.core:Derivative.__call__', 'numdifftools.core:Derivative._derivative_nonzero_order',
           'numdifftools.core:Derivative.set_richardson_rule', 'numdifftools.core:Derivative._get_steps',
           'numdifftools.multicomplex:Bicomplex.__mul__']
CAL = bool(os.environ.get('VERIF_CALIBRATE'))
# A(method, n): >= 30 x the largest err/E* seen on the unchanged tree in the calibration sweeps (see DESIGN.md, C01)
TOL = {('default',): 3000.0}
# under the hostile 'collapsing tail' step sequences the unchanged library is fooled on ~1.4 % of the in-scope elements
# (23 of 1651 in the calibration probe); a breakage of the outlier / selection logic multiplies that (18 % for seeded/S-C02)
RATE_CAPS = {'selector-picked-rounding-dominated-step': ('hostile_tail_elements_in_scope', 0.06, 100)}
# Bicomplex formulas that go through log(): real powers (hence sqrt) and the inverse functions. Integer powers and
# division (hence tan, tanh) use ring arithmetic since the fix recorded in known_findings.json.
SENSITIVE = {'arctan', 'arcsin'}
MIN_COUNTERS = dict(quick={'asserted_elements': 1500, 'nontrivial_elements': 400, 'n0_bit_identity_asserted': 100,
                           'complex_valued_asserted': 40, 'array_cases': 300, 'user_step_generator_cases': 500},
                    thorough={'asserted_elements': 60000})
RULE = ('Input classes and histories: x as float / int / list / tuple / 0-d array / numpy scalar, stationary points (exact derivative 0), a step generator instance already used by another object, step generators with their own default base step; a regression corpus (inputs of repaired defects and witnesses of the listed findings) in shard 0. ' 
        'random expression programs (depth <= 4 over {+,-,*,/,integer and real powers, exp, log, sqrt, sin, cos, tan, sinh, '
        'cosh, tanh, arctan, arcsin, arcsinh, arctanh, expm1, log1p}) plus hostile templates (internal cancellation, near-pole, '
        'large argument, negative-base powers, expm1**2, log1p chains), points with |x| in [1e-3, 1e2] of both signs, scalars '
        'and arrays; every (method, n <= nmax, order 1..8) cell visited; 30 % user step specifications. A case is asserted '
        'when it is in scope (finite windowed scale S*, program real-analytic on the whole probed segment, f finite). '
        'distinct non-trivial = (program, method, n, order, step kind) in scope with 2|f^(n)(x)| >= 10 A E*, i.e. a wrong '
        'sign or factor would leave the envelope (E* in place of S*)')
ASSUMPTIONS = ['exact value: truncated Taylor-series arithmetic (jets) over 50-digit mpmath on the same expression tree',
               'envelope |value - f^(n)(x)| <= A(method, n) * E*, E* = min over the windows of W consecutive generated steps lying '
               'inside the validity radius of [eps * Lambda * max(S(rho_small), S(rho_big)) + T_P(rho_big)]: S(rho) = n! max_k '
               'c^_k rho^(k-n) is the local scale of f and its derivatives (c^_0 includes the evaluation noise of the program), '
               'Lambda = sum|w_rule| * sum|w_richardson| the observed rounding amplification, T_P the Taylor terms of order >= '
               'n + P which rule + Richardson (P from the independent model of C06) cannot remove; A = 3000 (calibration: 290 000 asserted elements over seeds 1-8, largest unexplained ratio 79, typical maxima 2-20)',
               'nmax: central 10, forward/backward 6, complex 8, multicomplex 2',
               'out of scope (counted, not judged): poles/kinks/branch points inside the probed segment, no valid window, '
               'non-finite f values; the library\'s behaviour there is listed as findings F15/F16 in DESIGN.md']


def tol(method, n):
    if CAL:
        return math.inf
    return TOL.get((method, n), TOL[('default',)])


def setup(ctx, mon):
    D.setup_monitors(ctx, mon, ANCHORS)


# inputs on which a defect was once observed (each repaired in /repo, see known_findings.json): kept in the workload of
# shard 0 so that the repaired behaviour stays under the oracle whatever the random draw
_X = ('x',)
CORPUS = [
    dict(tree=('powi', _X, 3), x=[-4.0], method='multicomplex', n=2, order=2),                          # 4ed08fc
    dict(tree=('div', ('c', 1.0), _X), x=[-4.0], method='multicomplex', n=2, order=2),
    dict(tree=('fn', 'tan', _X), x=[0.3], method='multicomplex', n=2, order=2),
    dict(tree=('fn', 'tanh', ('div', ('c', 2.0), _X)), x=[-0.002891589046010931], method='multicomplex', n=2, order=5),   # 22f79f2
    dict(tree=('mul', ('mul', _X, ('fn', 'cos', _X)), ('fn', 'tanh', ('div', ('c', 2.0), _X))), x=[-0.002891589046010931],
         method='multicomplex', n=2, order=5),
    dict(tree=('powi', ('div', ('sub', ('c', 1.5), _X), ('fn', 'cosh', _X)), 3), x=[-54.30862401129494], method='multicomplex', n=2, order=7),
    dict(tree=('powi', ('fn', 'expm1', _X), 2), x=[0.7], method='multicomplex', n=2, order=2),           # 61d1205
    dict(tree=('fn', 'arcsinh', _X), x=[-3.0], method='multicomplex', n=1, order=2),                    # 44dc5fb
    dict(tree=('fn', 'sqrt', _X), x=[0.0011, 1.0], method='central', n=1, order=2, shape=[2]),           # 2eb6030
    dict(tree=('fn', 'exp', ('mul', ('ci', 1.0), _X)), x=[0.5], method='central', n=1, order=2, cplx=True),   # 4b12ea2
    dict(tree=('fn', 'sin', _X), x=[0.3, 1.2, 2.0], method='multicomplex', n=1, order=2, shape=[3]),     # 8280d5f
    # two step ratios that agree to four decimals, one after the other in the same process: each has its own rule
    dict(tree=('fn', 'exp', _X), x=[0.7], method='central', n=1, order=4, step=dict(kind='min', opts=dict(base_step=0.01, step_ratio=2.0, num_steps=9))),
    dict(tree=('fn', 'exp', _X), x=[0.7], method='central', n=1, order=4, step=dict(kind='min', opts=dict(base_step=0.01, step_ratio=2.00004, num_steps=9))),
    dict(tree=('fn', 'sin', _X), x=[1.1], method='forward', n=1, order=3, step=dict(kind='min', opts=dict(base_step=0.01, step_ratio=3.0, num_steps=9))),
    dict(tree=('fn', 'sin', _X), x=[1.1], method='forward', n=1, order=3, step=dict(kind='min', opts=dict(base_step=0.01, step_ratio=2.99997, num_steps=9))),
    # the variable used again after a function was applied to it directly (a function of a number does not change the number)
    dict(tree=('mul', _X, ('fn', 'arcsinh', _X)), x=[-0.7], method='multicomplex', n=2, order=2),
    dict(tree=('add', ('fn', 'arcsinh', _X), ('fn', 'exp', _X)), x=[-3.0], method='multicomplex', n=1, order=2),
    dict(tree=('mul', ('fn', 'arctan', _X), _X), x=[-0.4], method='multicomplex', n=1, order=2),
    dict(tree=('sub', ('fn', 'tanh', _X), ('mul', _X, _X)), x=[-1.3], method='multicomplex', n=2, order=2),
    dict(tree=('mul', ('fn', 'sqrt', _X), _X), x=[2.5], method='complex', n=1, order=2),
    # arrays that mix a point whose larger steps leave the domain (not judged itself) with points far inside it, higher n: what
    # happens to the first element's table must not cost the others their large steps
    dict(tree=('fn', 'log', _X), x=[0.02, 1.0, 5.0], method='central', n=4, order=2, shape=[3]),
    dict(tree=('fn', 'sqrt', _X), x=[0.02, 2.0, 5.0], method='central', n=5, order=2, shape=[3]),
    dict(tree=('fn', 'log', _X), x=[3.0, 0.05, 8.0], method='backward', n=3, order=2, shape=[3]),
    dict(tree=('fn', 'arctanh', ('mul', ('c', 0.1), _X)), x=[9.97, 1.0, -3.0], method='central', n=3, order=4, shape=[3]),
    dict(tree=('powr', _X, 1.5), x=[0.03, 4.0, 7.0], method='central', n=4, order=2, shape=[3]),
    # ... and arrays with an element outside the domain altogether (nan at every step; not judged): the others keep their own rows
    dict(tree=('fn', 'log', _X), x=[20.0, 50.0, -1.0], method='forward', n=1, order=2, shape=[3]),
    dict(tree=('fn', 'sqrt', _X), x=[-0.5, 2.0, 7.0], method='central', n=2, order=2, shape=[3]),
    dict(tree=('fn', 'log', ('mul', _X, _X)), x=[1.5, -2.5, 3.0], method='backward', n=1, order=4, shape=[3], step=dict(kind='scalar', value=0.01)),
    # integer-typed points in a narrow dtype whose f(x) is still representable there but 2*f(x) is not (int8: 64, uint8: 130): the
    # rules that use f(x) itself (complex steps, n = 4 and 8) must not do arithmetic in that type (repaired, a33a217)
    dict(tree=('mul', _X, _X), x=[8.0, 2.0], shape=[2], method='complex', n=8, order=7, int_x=True),
    dict(tree=('mul', _X, _X), x=[8.0, 2.0], shape=[2], method='complex', n=4, order=2, int_x=True),
    dict(tree=('add', ('mul', ('mul', _X, _X), _X), _X), x=[5.0, 2.0], shape=[2], method='complex', n=4, order=4, int_x=True),
    dict(tree=('mul', _X, _X), x=[8.0], method='complex', n=4, order=2, int_x=True),
    # negative user-supplied steps (a step is a signed displacement): value within the envelope, estimate non-negative (repaired, 941b3cf)
    dict(tree=('fn', 'exp', _X), x=[1.0], method='central', n=1, order=2, step=dict(kind='scalar', value=-0.01)),
    dict(tree=('mul', ('fn', 'sin', _X), _X), x=[0.7], method='forward', n=3, order=2, step=dict(kind='scalar', value=-0.005)),
    dict(tree=('fn', 'exp', _X), x=[0.4, 1.3], shape=[2], method='complex', n=1, order=2, step=dict(kind='scalar', value=-0.001)),
    dict(tree=('fn', 'cos', _X), x=[0.9], method='multicomplex', n=1, order=2, step=dict(kind='scalar', value=-0.001)),
    dict(tree=('fn', 'exp', _X), x=[0.3], method='backward', n=1, order=4, step=dict(kind='min', opts=dict(base_step=-0.002, num_steps=8))),
    # witnesses of the listed (open) findings that a random draw of the quick tier does not always contain
    dict(tree=('fn', 'sin', ('fn', 'expm1', ('div', _X, ('c', 0.1)))), x=[0.5291377990629251, 0.3655232913548389], shape=[2],
         method='central', n=1, order=3),                               # selector-picked-steps-beyond-validity-radius
    dict(tree=('powr', ('div', ('mul', ('c', 2.5), ('powr', _X, 2.5)), ('powi', ('powr', _X, 1.5), -1)), 2.5),
         x=[0.03865725934795732], method='forward', n=3, order=8,
         step=dict(kind='scalar', value=0.016036668349966334)),       # rule-order-lost-in-ill-conditioned-moment-system
    dict(tree=('fn', 'sqrt', ('add', ('sub', ('add', ('c', -4.0), _X), ('mul', _X, ('c', 1.3851))), ('fn', 'tanh', ('powi', _X, 5)))),
         x=[-33.7085423838625], method='multicomplex', n=1, order=1, out_form='zero_d',
         step=dict(kind='min', opts=dict(base_step=5.011368396173935e-05, step_ratio=4.0))),    # bicomplex-quotient-overflow
]


def cases(rng, tier, shard, nshards):
    if shard == 0:
        for c in CORPUS:
            yield dict(dict(shape=[], step=dict(kind='default'), cplx=False, stationary=False, int_x=False), **c)
    total = BUDGET[tier] // nshards
    ncells = sum((D.NMAX[m] + 1) * 8 for m in D.METHODS)
    k = shard
    made = 0
    while made < total:
        if k < ncells * 3:          # three stratified passes over the whole grid (spread over shards)
            method, n, order = D.draw_config(rng, k)
            k += nshards
        else:
            method, n, order = D.draw_config(rng)
        cplx = method in ('central', 'forward', 'backward') and rng.random() < 0.06
        c = D.make_case(rng, method, n, order, complex_valued=cplx)
        if c is not None:
            made += 1
            yield c


def run_case(case, ctx):
    method, n, order = case['method'], case['n'], case['order']
    res = D.run_case(case, ctx)
    tree = res['tree']
    prog = X.to_str(tree)
    if res.get('changed_by_later_call'):
        ctx.reject('returned_arrays_changed_by_a_later_call', detail=dict(program=prog), method=method, n=n)
        return
    if 'changed_by_later_call' in res:
        ctx.count('earlier_results_checked_after_a_later_call')
    if res.get('repeated_request_differs'):
        ctx.reject('result_depends_on_what_the_caller_did_to_an_earlier_result', detail=dict(program=prog), method=method, n=n)
        return
    if 'repeated_request_differs' in res:
        ctx.count('request_repeated_after_the_caller_modified_its_result')
    if res.get('x_modified'):
        ctx.reject('callers_array_modified', detail=dict(program=prog), method=method, n=n)
        return
    if 'x_modified' in res:
        ctx.count('callers_array_unchanged_asserted')
    if case['shape']:
        ctx.count('array_cases')
    if case['step']['kind'] in ('min', 'max'):
        ctx.count('user_step_generator_cases')
    if res['outcome'] == 'raised':
        exc = res['exc']
        ctx.reject('raised', observed='%s: %s' % (type(exc).__name__, str(exc)[:200]),
                   detail=dict(program=prog), exc_type=type(exc).__name__, method=method, n=n,
                   complex_valued=case['cplx'], operators=sorted(X.operators(tree)))
        return
    if case['step']['kind'] == 'default' and n >= 1:
        # "default step generators": an object built without step options uses the documented default sequence for its
        # (x, method, n, order) - the closed-form model of C10 - whatever was done to other objects before
        from vf.props import c10
        want = c10.model('min' if method in ('complex', 'multicomplex') else 'max', {}, np.asarray(res['x'], dtype=float), method, n,
                         int(res['dobj'].method_order))[0]      # (the generator is handed the order the rule delivers, see C06)
        got = res['obs'].get('steps') or []
        ctx.count('default_step_sequence_asserted')
        same = len(got) == len(want) and all(
            np.allclose(np.asarray(g, dtype=float), np.asarray(w, dtype=float), rtol=1e-12, atol=0) for g, w in zip(got, want))
        if not same:
            ctx.reject('default_steps_differ_from_the_documented_default_sequence',
                       observed=[np.ravel(g)[0] for g in got[:4]] + [len(got)], expected=[np.ravel(w)[0] for w in want[:4]] + [len(want)],
                       detail=dict(program=prog), method=method, n=n, order=order)
            return
    val = res['value']
    if val.shape != tuple(case['shape']):
        ctx.reject('shape', observed=list(val.shape), expected=case['shape'])
        return
    if n == 0:
        f = X.compile_np(tree)
        with np.errstate(all='ignore'):
            direct = np.asarray(f(np.asarray(res['x'])))        # the library hands np.asarray(x) to f
        ctx.count('n0_bit_identity_asserted')
        # exact equality of values (signed zeros compare equal: the value passes through a length-1 convolution)
        if not np.array_equal(np.asarray(val), direct.astype(val.dtype), equal_nan=True):
            ctx.reject('n0_is_not_f_of_x', observed=val, expected=direct, detail=dict(program=prog))
        else:
            ctx.nontrivial(('n0', prog, method))
        return
    if n > D.NMAX[method]:
        ctx.count('outside_nmax')
        return
    for e, x_e, v, est_e, fs_e in D.elements(case, res):
        m = D.oracle_for_element(case, res, e, x_e, v, est_e, fs_e)
        if not m.in_scope:
            ctx.count(m.skip)
            if m.skip == 'skipped_singular_segment' and not np.isfinite(v):
                ctx.count('observed:nonfinite_result_on_singular_segment(F15/F16 class)')
            continue
        ctx.count('asserted_elements')
        if case['step'].get('hostile'):
            ctx.count('hostile_tail_elements_in_scope')
        if case['cplx']:
            ctx.count('complex_valued_asserted')
        t = tol(method, n)
        ctx.count('asserted_elements:' + ('extrapolated' if m.full_window else 'truncation_limited'))
        ratio = m.err / m.E
        ctx.maximum('err/E*:%s:n=%d' % (method, n), ratio, dict(program=prog, x=x_e, order=order, step=case['step'],
                                                                  value=complex(v), exact=complex(m.exact)))
        visible = 2 * m.cn_abs >= 10 * (t if math.isfinite(t) else 3000.0) * m.E
        if visible:
            ctx.count('nontrivial_elements')
            ctx.nontrivial((prog, method, n, order, case['step']['kind']))
        if not ratio <= t:
            steps = res['obs'].get('steps') or []
            eps_steps = bool(steps) and max(float(np.max(np.abs(s_))) for s_ in steps) < 1e-10
            floor = m.floor if m.floor is not None else 0.0
            # is the moment system of this (method, n, order, step ratio) numerically singular (the precondition C06
            # states)?  Then the delivered rule cannot have its formal order; what remains promised is the plain formula.
            singular, cond2 = False, None
            try:
                from vf.props.c06 import moment_system
                hs = sorted({float(np.abs(np.asarray(s_).ravel()[e if np.size(s_) > 1 else 0])) for s_ in steps}, reverse=True)
                if len(hs) >= 2 and hs[1] > 0:
                    cond2, _T, singular = moment_system(method, n, order, hs[0] / hs[1])
            except Exception:
                pass
            qo = False
            if method == 'multicomplex' and not np.isfinite(v):
                try:
                    from vf.props.c12 import quotient_overflow
                    qo = bool(quotient_overflow(tree, x_e))
                except Exception:
                    qo = False
            ctx.reject('outside_accuracy_envelope', observed=complex(v), expected=complex(m.exact),
                       detail=dict(program=prog, x=x_e, err=m.err, E=m.E, S=m.S, ratio=ratio, A=t, W=m.W, nsteps=m.nsteps,
                                   rho_valid=m.rho_valid, est=est_e, final_step=fs_e, P=m.P, lam=m.lam,
                                   diff=res['obs'].get('diff'), parity=res['obs'].get('parity')),
                       method=method, n=n, order=order, operators=sorted(X.operators(tree)),
                       result_is_nan=bool(not np.isfinite(v)), step_kind=case['step']['kind'],
                       complex_valued=case['cplx'], all_steps_eps_sized=eps_steps,
                       chosen_step_beyond_validity_radius=bool(m.chosen_beyond_validity),
                       error_explained_by_rounding_at_chosen_step=bool(floor > 0 and m.err <= 10 * floor),
                       majority_of_table_rows_collapsed=bool(m.frac_collapsed >= 0.5),
                       fraction_of_table_rows_collapsed=round(m.frac_collapsed, 3),
                       tanh_family_argument_beyond_700=bool(qo),
                       moment_system_numerically_singular=bool(singular),
                       within_envelope_of_the_plain_formula=bool(m.err <= t * m.E_low))
            return
    if len(ctx.samples) < 4:
        ctx.sample(dict(program=prog, x=case['x'], method=method, n=n, order=order, step=case['step'],
                        value=val.ravel()[:3], diff_function=res['obs'].get('diff')))


def classify(wit):
    f = wit.get('facts') or {}
    if wit.get('check') != 'outside_accuracy_envelope':
        return None
    if f.get('method') == 'multicomplex' and f.get('result_is_nan') and f.get('tanh_family_argument_beyond_700'):
        return 'bicomplex-quotient-overflow'
    if f.get('method') == 'multicomplex' and set(f.get('operators') or []) & SENSITIVE:
        return 'multicomplex-log-formula-cancellation'
    if f.get('chosen_step_beyond_validity_radius'):
        return 'selector-picked-steps-beyond-validity-radius'
    if f.get('error_explained_by_rounding_at_chosen_step'):
        return 'selector-picked-rounding-dominated-step'
    if f.get('moment_system_numerically_singular') and f.get('within_envelope_of_the_plain_formula'):
        return 'rule-order-lost-in-ill-conditioned-moment-system'
    return None


TECHNIQUE = ('runtime monitoring: contract on Derivative.__call__ returns + sys.monitoring observers on the step generator, '
             'rule, difference functions and best-estimate selection; independent jet (Taylor-arithmetic) oracle')
LEVEL_TEXT = ('exploration: every observed Derivative result on generated expression programs is decided against the exact '
              'n-th derivative from jets within a calibrated per-(method, n) envelope relative to the windowed local scale')
LEVEL_NOTE = ('trusts mpmath arithmetic and the jet recurrences (cross-checked against mpmath.diff); thresholds are empirical '
              'envelopes with >= 30x head-room over the unchanged tree')
