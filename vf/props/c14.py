"""C14 - streaming epsilon algorithms: EpsAlg equals Wynn's table; Dea is total."""
from fractions import Fraction
import math

import numpy as np

from vf.oracle.exact import F, shanks3, wynn_table, to_float, EPS

ID = 'C14'
NSHARDS = dict(quick=8, thorough=16)
BUDGET = dict(quick=3000, thorough=150000)
ANCHORS = ['numdifftools.extrapolation:EpsAlg.__call__', 'numdifftools.extrapolation:Dea.__call__',
           'numdifftools.extrapolation:Dea._dea', 'numdifftools.extrapolation:Dea._shift_table',
           'numdifftools.extrapolation:Dea._update_res3la']
MIN_COUNTERS = dict(quick={'epsalg_entries_asserted': 2700, 'epsalg_complex_entries_asserted': 600, 'epsalg_recovery_asserted': 300,
                           'dea_calls_total_asserted': 50000, 'dea_floor_asserted': 50000,
                           'dea_first_three_asserted': 1500, 'dea_table_membership_asserted': 3000, 'dea_table_membership_after_guards_or_cap_asserted': 3000, 'dea_branch:table_capped_at_limexp': 100, 'dea_finite_for_three_terms_near_top_of_range_asserted': 150, 'dea_interleaved_instances_compared': 300,
                           'dea_branch:all_converged': 100, 'dea_branch:partial_convergence_shrinks_table': 100},
                    thorough={'epsalg_entries_asserted': 100000, 'dea_calls_total_asserted': 2000000})
RULE = ('Two further families: extreme (subnormal terms, units of 1e+-20..140, values up to 1e100) and integers (terms as Python / numpy integers). ' 
        'histories: L + sum_{i<=k} a_i q_i^n (k = 1..4), random finite sequences, alternating series partial sums, '
        'sequences rounded to 1 decimal (exact ties, constant tails); lengths 1..200, limexp 3..60; one EpsAlg and '
        'one Dea instance fed term by term. distinct non-trivial = (family, k, length bucket, limexp bucket, '
        'set of Dea branches fired) for histories with >= 5 terms')
ASSUMPTIONS = ['EpsAlg is compared with the exact table only while the exact table is well conditioned: smallest '
               'relative table difference >= 1e-6 (the statement excludes vanishing differences); tolerance '
               'C*(spread + eps*|value|), spread = measured change of the exact table entry when every input '
               'moves by +-1ulp and every intermediate entry by a relative +-eps (model of a float evaluation); C = 64 '
               '(worst ratio on the unchanged tree 1.3 at C = 1)',
               'Dea vs dea3 on term 3: result within 4 ulp; estimate compared only outside the guards',
               'finite input means |term| <= 1e100',
               'additional invariant (implied by Dea being the epsilon algorithm): while no guard fired and the table '
               'is not capped, the result is an even-order entry of the newest anti-diagonal of the exact table '
               '(relative 1e-7 on well-conditioned prefixes)']
C_EPS = 64.0
MAX_EXACT_TERMS = 13
UNRESOLVED = 1e-3   # a table difference that +-1 ulp perturbations move by more than this fraction 'vanishes' in binary64
FAMILIES = ['transients', 'random', 'alternating', 'rounded', 'extreme', 'integers']


def _dea_return(ctx):
    def cb(frame, retval):
        loc = frame.f_locals
        _hist['dea_called'] = True
        if loc.get('all_converged'):
            ctx.count('dea_branch:all_converged')
            _hist['branches'].add('allconv')
        elif loc.get('old_n') != loc.get('n'):
            if loc.get('old_n') == loc.get('limexp', -9) - 1 and loc.get('n') == loc.get('limexp', -9) - 2:
                ctx.count('dea_branch:table_capped_at_limexp')
                _hist['branches'].add('capped')
            else:
                ctx.count('dea_branch:partial_convergence_shrinks_table')
                _hist['branches'].add('shrunk')
        else:
            ctx.count('dea_branch:regular')
            _hist['branches'].add('regular')
    return cb


_hist = dict(branches=set())


def setup(ctx, mon):
    import numdifftools.extrapolation  # noqa
    for a in ANCHORS:
        mon.watch(a, on_return=_dea_return(ctx) if a.endswith('Dea._dea') else None)


def cases(rng, tier, shard, nshards):
    for i in range(BUDGET[tier] // nshards):
        if i % 10 == 9:
            # complex-valued sequences (the terms of a limit along a complex path): EpsAlg only
            yield dict(family='complex_transients', k=int(rng.integers(1, 4)), seed=int(rng.integers(0, 2 ** 31)))
            continue
        fam = FAMILIES[(i + shard) % len(FAMILIES)]
        u = rng.random()
        length = int(rng.integers(1, 16)) if u < 0.4 else int(rng.integers(16, 60)) if u < 0.8 \
            else int(rng.integers(60, 201))
        limexp = int(rng.integers(3, 12)) if rng.random() < 0.5 else int(rng.integers(12, 61))
        yield dict(family=fam, k=int(rng.integers(1, 5)), length=length, limexp=limexp,
                   seed=int(rng.integers(0, 2 ** 31)))


def make_sequence(case):
    rng = np.random.default_rng(case['seed'])
    N, k, fam = case['length'], case['k'], case['family']
    meta = {}
    if fam in ('transients', 'rounded'):
        L = float(np.round(rng.normal() * 10.0 ** rng.uniform(-2, 2), 6))
        a = [float(np.round(v, 4)) for v in rng.normal(size=k) * 10.0 ** rng.uniform(-1, 1)]
        a = [v if v != 0 else 0.5 for v in a]
        q = []
        while len(q) < k:
            c = float(np.round(rng.uniform(-0.9, 0.9), 3))
            if abs(c) > 0.05 and all(abs(c - o) > 0.05 for o in q):
                q.append(c)
        FL = F(L)
        seq = []
        for n in range(N):
            v = FL
            for ai, qi in zip(a, q):
                v += F(ai) * F(qi) ** n
            seq.append(float(v))
        meta = dict(L=L, a=a, q=q)
        if fam == 'rounded':
            seq = [float(np.round(v, 1)) for v in seq]
    elif fam == 'random':
        scale = 10.0 ** rng.uniform(-3, 3)
        seq = [float(v) for v in rng.normal(size=N) * scale]
        if rng.random() < 0.3:
            seq = [float(v) for v in np.cumsum(seq) / (1 + np.arange(N))]
    elif fam == 'integers':
        # integer-valued terms handed over as Python ints (or numpy integers): L + m q^n with small integers, or a
        # random walk of integers
        if rng.random() < 0.6:
            q = int(rng.choice([-3, -2, 2, 3]))
            L, m = int(rng.integers(-20, 21)), int(rng.integers(1, 6)) * int(rng.choice([-1, 1]))
            raw = [L + m * q ** n for n in range(min(N, 30))]
        else:
            raw = [int(v) for v in np.cumsum(rng.integers(-9, 10, size=N))]
        if rng.random() < 0.5:
            raw = [np.int64(v) for v in raw]
        seq = [float(v) for v in raw]
        meta = dict(raw=raw)
    elif fam == 'extreme':
        # the ends of the binary64 range: finite input all the same
        mode = int(rng.integers(0, 5))
        meta = dict(mode=mode, epsalg=mode in (2, 3))
        if mode == 0:      # a * q**n with small |q|: the terms run through the subnormals down to exactly 0.0
            q = float(10.0 ** rng.uniform(-8, -1.3) * rng.choice([-1.0, 1.0]))
            a = float(rng.normal() * 10.0 ** rng.uniform(-5, 5)) or 1.0
            seq = [a * q ** n for n in range(N)]
        elif mode == 1:    # random subnormal / barely normal values
            scale = 10.0 ** rng.uniform(-323, -290)
            seq = [float(v) for v in rng.normal(size=N) * scale]
        elif mode == 2:    # an ordinary limit-plus-transients sequence in units of 1e+-(20..140)
            unit = 10.0 ** (rng.uniform(20, 140) * rng.choice([-1.0, 1.0]))
            L = float(np.round(rng.normal(), 3))
            a = [float(np.round(v, 3)) or 0.5 for v in rng.normal(size=k)]
            q = [float(c) for c in np.round(rng.choice(np.arange(0.1, 0.9, 0.1), size=k, replace=False) * rng.choice([-1.0, 1.0], size=k), 2)]
            seq = [float((L + sum(ai * qi ** n for ai, qi in zip(a, q))) * unit) for n in range(N)]
            meta.update(unit=unit)
        elif mode == 4:    # three terms near the top of the range (1e300 .. 8e307), of one sign: a nearly arithmetic progression
            #                (the reciprocal of the second difference is subnormal or overflows), or three random values
            unit = 10.0 ** rng.uniform(300, 307.9)
            if rng.random() < 0.7:
                a0, dd = rng.uniform(0.1, 1), rng.uniform(0.05, 0.4) * rng.choice([-1.0, 1.0])
                dl = 10.0 ** rng.uniform(-6, -2) * rng.choice([-1.0, 1.0])
                seq = [a0, a0 + dd, a0 + 2 * dd * (1 + dl)]
            else:
                seq = list(rng.uniform(0.1, 1, size=3))
            sg = float(rng.choice([-1.0, 1.0]))
            seq = [sg * float(v) * unit for v in seq]
        else:              # random large values (all <= 1e100 in magnitude, the cap the finiteness clause is asserted under)
            scale = 10.0 ** rng.uniform(60, 99)
            seq = [float(v) for v in np.clip(rng.normal(size=N), -8, 8) * scale]
        seq = [float(v) for v in seq]
    else:  # alternating series partial sums, e.g. log 2, pi/4
        p = rng.uniform(0.5, 2.0)
        terms = (-1.0) ** np.arange(N) / (1.0 + np.arange(N)) ** p
        seq = [float(v) for v in np.cumsum(terms)]
    return seq, meta


def _ulp_perturbed(seq, rng):
    return [float(v) + float(s) * math.ulp(v) for v, s in zip(seq, rng.choice([-1.0, 1.0], len(seq)))]


def _spread_mp(prefix, n_terms, exact, rng, runs):
    """Largest change of the highest-even-order entry when every input moves by +-1 ulp and every
    computed entry by a relative +-eps: the same recursion evaluated in 400-bit mpmath arithmetic
    with injected perturbations (a model of a binary64 evaluation).  None if a difference vanishes."""
    import mpmath
    mp = mpmath.mp
    old = mp.prec
    mp.prec = 400
    try:
        ex = mpmath.mpf(exact.numerator) / mpmath.mpf(exact.denominator)
        eps = mpmath.mpf(EPS)
        k = (n_terms - 1) // 2 * 2
        worst = mpmath.mpf(0)
        worst_any = mpmath.mpf(0)
        base = None
        for run in range(runs + 1):
            # run 0 is unperturbed: it records every table difference; a perturbed run in which a difference moves by
            # more than UNRESOLVED of itself means binary64 cannot tell that difference from zero ("a table difference
            # vanishes" in the arithmetic the code runs in) and the prefix is outside the statement
            sg = rng.integers(-1, 2, size=(n_terms + 2) * (n_terms + 2)) if run else np.zeros((n_terms + 2) * (n_terms + 2), dtype=int)
            it = iter(sg)
            prev = [mpmath.mpf(0)] * (n_terms + 1)
            cur = [mpmath.mpf(v) + int(next(it)) * mpmath.mpf(math.ulp(v)) for v in prefix]
            col = 0
            diffs = []
            evens = [cur[-1]]
            while col < k:
                new = []
                for n in range(len(cur) - 1):
                    d = cur[n + 1] - cur[n]
                    if d == 0:
                        return None
                    diffs.append(d)
                    new.append((prev[n + 1] + 1 / d) * (1 + eps * int(next(it))))
                prev, cur = cur, new
                col += 1
                if col % 2 == 0:
                    evens.append(cur[-1])
            if run == 0:
                base = diffs
                base_evens = evens
                continue
            for d, d0 in zip(diffs, base):
                if abs(d - d0) > UNRESOLVED * abs(d0):
                    return None
            worst = max(worst, abs(cur[-1] - ex))
            worst_any = max([worst_any] + [abs(a - b) for a, b in zip(evens, base_evens)])
        _spread_mp.any_even = float(worst_any)   # the same, over every even column's newest entry (Dea may pick any)
        return float(worst)
    finally:
        mp.prec = old


def _guard_in_cone(guard_cols, n):
    """Did the library's vanishing-difference substitution land on an entry the result of call n (0-based) depends on?
    guard_cols[d] is the set of table columns holding the substitute on anti-diagonal d; the result eps_k^(n-k),
    k = n - n % 2, depends on eps_c^(i) with c < k and n-k <= i <= n-c (and on itself)."""
    k = n - n % 2
    for d in range(n + 1):
        for c in guard_cols[d]:
            if (c < k and d - c >= n - k) or (c == k and d == n):
                return True
    return False


def _make_perturb(rng):
    e = Fraction(EPS)

    def perturb(v):
        return v * (1 + e * int(rng.integers(-1, 2)))
    return perturb


def _even_entry(cols, n_terms):
    k = (n_terms - 1) // 2 * 2
    if len(cols) <= k or not cols[k]:
        return None
    return cols[k][-1]


def _min_rel_diff(cols):
    worst = None
    for col in cols:
        for a, b in zip(col[:-1], col[1:]):
            d = abs(b - a)
            s = max(abs(a), abs(b))
            if s == 0:
                r = 0.0
            else:
                r = to_float(d / s)
            worst = r if worst is None else min(worst, r)
    return 1.0 if worst is None else worst


def _wynn_mpc(terms, signs, eps):
    """Highest even entry of the epsilon table of complex terms in 400-bit arithmetic, every input moved by a relative
    eps * (s1 + i s2) and every computed entry likewise (signs: iterator over {-1, 0, 1}); also every table difference."""
    import mpmath
    n_terms = len(terms)
    k = (n_terms - 1) // 2 * 2

    def wob():
        return 1 + eps * mpmath.mpc(int(next(signs)), int(next(signs)))
    prev = [mpmath.mpc(0)] * (n_terms + 1)
    cur = [mpmath.mpc(t.real, t.imag) * wob() for t in terms]
    diffs = []
    col = 0
    while col < k:
        new = []
        for n in range(len(cur) - 1):
            d = cur[n + 1] - cur[n]
            if d == 0:
                return None, None
            diffs.append((d, max(abs(cur[n + 1]), abs(cur[n]))))
            new.append((prev[n + 1] + 1 / d) * wob())
        prev, cur = cur, new
        col += 1
    return cur[-1], diffs


def run_complex(case, ctx):
    import itertools
    import mpmath
    from numdifftools.extrapolation import EpsAlg
    rng = np.random.default_rng(case['seed'])
    k = case['k']
    L = complex(np.round(rng.normal(), 3), np.round(rng.normal(), 3))
    radii = np.sort(rng.uniform(0.15, 0.85, size=k))
    while k > 1 and np.min(np.diff(radii)) < 0.08:
        radii = np.sort(rng.uniform(0.15, 0.85, size=k))
    qs = [complex(r * np.exp(1j * rng.uniform(-math.pi, math.pi))) for r in radii]
    amps = [complex(rng.normal(), rng.normal()) for _ in range(k)]
    N = 2 * k + 1 + int(rng.integers(0, 3))
    seq = [complex(L + sum(a * q ** n for a, q in zip(amps, qs))) for n in range(N)]
    form = ['python_complex', 'numpy_complex128', 'zero_d_array'][case['seed'] % 3]
    given = seq if form == 'python_complex' else [np.complex128(v) for v in seq] if form == 'numpy_complex128' else [np.array(v) for v in seq]
    ctx.count('complex_sequences_given_as:' + form)
    ea = EpsAlg()
    outs = []
    try:
        raw = []
        for s_ in given:
            r_ = ea(s_)
            raw.append(r_)
            outs.append(complex(r_))
    except Exception as exc:
        ctx.reject('epsalg_raised', observed=repr(exc), detail=dict(at=len(outs), complex_terms=True, form=form))
        return
    # an estimate the caller keeps ([alg(s) for s in seq]) is what it was when it was handed out
    ctx.count('kept_estimates_checked_after_later_calls')
    for i_, (r_, v_) in enumerate(zip(raw, outs)):
        now_ = complex(r_)
        if now_ != v_ and not (now_ != now_ and v_ != v_):
            ctx.reject('returned_estimate_changed_by_a_later_call', observed=now_, expected=v_, detail=dict(term=i_ + 1, form=form, terms=N))
            return
    old = mpmath.mp.prec
    mpmath.mp.prec = 400
    try:
        eps = mpmath.mpf(EPS)
        for n_terms in range(1, N + 1):
            prefix = seq[:n_terms]
            exact, base = _wynn_mpc(prefix, itertools.repeat(0), eps)
            if exact is None or any(abs(d) < 1e-6 * sc for d, sc in base):
                ctx.count('epsalg_skipped_vanishing_difference')
                return
            spread = mpmath.mpf(0)
            for run in range(8):
                sg = iter(rng.integers(-1, 2, size=4 * (n_terms + 2) * (n_terms + 2)))
                v, diffs = _wynn_mpc(prefix, sg, eps)
                if v is None or any(abs(d - d0) > UNRESOLVED * abs(d0) for (d, _), (d0, _) in zip(diffs, base)):
                    ctx.count('epsalg_skipped_vanishing_difference')
                    return
                spread = max(spread, abs(v - exact))
            obs = outs[n_terms - 1]
            err = float(abs(mpmath.mpc(obs.real, obs.imag) - exact)) if (math.isfinite(obs.real) and math.isfinite(obs.imag)) else math.inf
            bound = C_EPS * (float(spread) + EPS * float(abs(exact)))
            ctx.count('epsalg_complex_entries_asserted')
            ctx.maximum('epsalg_complex_err/bound(C=%g)' % C_EPS, err / bound if bound > 0 else (0.0 if err == 0 else math.inf))
            if not err <= bound:
                ctx.reject('epsalg_not_highest_even_table_entry', observed=obs, expected=complex(exact),
                           detail=dict(n_terms=n_terms, err=err, bound=bound, seq=prefix, complex_terms=True, form=form))
                return
            if n_terms == 2 * k + 1:
                ctx.count('epsalg_complex_recovery_asserted')
                lb = bound + float(abs(exact - mpmath.mpc(L.real, L.imag)))
                if not abs(obs - L) <= lb:
                    ctx.reject('epsalg_limit_not_recovered_from_2k+1_terms', observed=obs, expected=L,
                               detail=dict(k=k, seq=prefix, complex_terms=True))
                    return
    finally:
        mpmath.mp.prec = old
    ctx.nontrivial(('complex_transients', k, form))


def run_case(case, ctx):
    if case['family'] == 'complex_transients':
        return run_complex(case, ctx)
    from numdifftools.extrapolation import EpsAlg, Dea, dea3
    seq, meta = make_sequence(case)
    N, limexp = len(seq), case['limexp']
    given = meta.get('raw') or seq          # the terms in the type they are handed over in
    if case['seed'] % 7 == 3 and not meta.get('raw') and all(isinstance(v, float) for v in seq):
        # the running value kept in one 0-d array that the caller updates in place between the calls
        ctx.count('terms_handed_over_in_one_array_updated_in_place')

        class _InPlace(object):
            def __init__(self, vals):
                self.vals = vals

            def __getitem__(self, sl):
                return _InPlace(self.vals[sl])

            def __iter__(self):
                acc = np.array(0.0)
                for v in self.vals:
                    acc[...] = v
                    yield acc
        given = _InPlace(list(seq))
    prng = np.random.default_rng(case['seed'] + 7)
    _hist['branches'] = set()
    # ------------------------------------------------------------------ EpsAlg
    ea = EpsAlg()
    ea_out = []
    ea_guard = []   # did the library's own vanishing-difference substitution (1e60) appear in its table so far
    try:
        for s in given[:MAX_EXACT_TERMS]:
            ea_out.append(float(ea(s)))
            d_ = len(ea.epstab) - 1
            ea_guard.append({d_ - j for j, v in enumerate(ea.epstab) if v == 1.0e+60})   # the substitute itself (values that size occur in the 'extreme' family)
    except Exception as exc:
        ctx.reject('epsalg_raised', observed=repr(exc), detail=dict(at=len(ea_out)))
        return
    vanished = False
    tables = {}
    spreads = {}
    for n_terms in range(1, len(ea_out) + 1):
        if vanished or meta.get('epsalg') is False:
            # (subnormal sequences: the relative rounding model of the conditioning estimate does not hold there)
            break
        prefix = seq[:n_terms]
        cols, ok = wynn_table(prefix)
        if not ok or _min_rel_diff(cols) < 1e-6:
            ctx.count('epsalg_skipped_vanishing_difference')
            vanished = True
            break
        exact = _even_entry(cols, n_terms)
        if exact is None:
            vanished = True
            break
        spread = _spread_mp(prefix, n_terms, exact, prng, 8 if ctx.tier == 'quick' else 16)
        if spread is None:
            ctx.count('epsalg_skipped_vanishing_difference')
            vanished = True
            break
        tables[n_terms] = cols
        spreads[n_terms] = _spread_mp.any_even
        obs = float(ea_out[n_terms - 1])
        if _guard_in_cone(ea_guard, n_terms - 1):
            # every difference of this prefix is resolved in binary64 (checked above), so the library had no reason to
            # substitute its "infinite" entry
            kk = (n_terms - 1) // 2 * 2
            mad = min([to_float(abs(b - a)) for col in cols[:max(kk, 1)] for a, b in zip(col[:-1], col[1:])] or [math.inf])
            ctx.reject('epsalg_vanishing_guard_fired_on_resolved_differences', observed=obs, expected=to_float(exact),
                       detail=dict(n_terms=n_terms, seq=prefix, smallest_table_difference=mad),
                       smallest_difference_below_the_absolute_1e60_threshold=bool(mad <= 1e-59))
            break    # (the Dea part of the history is still examined)
        bound = C_EPS * (spread + EPS * to_float(abs(exact)))
        err = to_float(abs(F(obs) - exact)) if math.isfinite(obs) else math.inf
        ratio = err / bound if bound > 0 else (0.0 if err == 0 else math.inf)
        ctx.count('epsalg_entries_asserted')
        ctx.maximum('epsalg_err/bound(C=%g)' % C_EPS, ratio, dict(case=case, n_terms=n_terms))
        if ratio > 1:
            ctx.reject('epsalg_not_highest_even_table_entry', observed=obs, expected=to_float(exact),
                       detail=dict(n_terms=n_terms, err=err, bound=bound, seq=prefix))
            return
        if case['family'] == 'transients' and n_terms == 2 * case['k'] + 1 and n_terms <= len(ea_out):
            # recovery of the limit from 2k+1 terms (exact table gives L up to input rounding)
            Lerr = abs(obs - meta['L'])
            lb = C_EPS * (spread + EPS * abs(meta['L'])) + to_float(abs(exact - F(meta['L'])))
            ctx.count('epsalg_recovery_asserted')
            if Lerr > lb:
                ctx.reject('epsalg_limit_not_recovered_from_2k+1_terms', observed=obs, expected=meta['L'],
                           detail=dict(k=case['k'], seq=prefix))
                return
    # ------------------------------------------------------------------ Dea
    finite_in = all(math.isfinite(v) and abs(v) <= 1e100 for v in seq)
    try:
        dea = Dea(limexp)
    except Exception as exc:
        ctx.reject('dea_constructor_raised', observed=repr(exc), detail=dict(limexp=limexp))
        return
    outs = []
    capped_seen = False
    for i, s in enumerate(given):
        _hist['dea_called'] = False
        try:
            r, e = dea(s)
        except Exception as exc:
            ctx.reject('dea_raised', observed=repr(exc)[:200],
                       detail=dict(at_term=i + 1, limexp=limexp, n_state=int(getattr(dea, '_n', -1))),
                       exc_type=type(exc).__name__)
            return
        r, e = float(r), float(e)
        outs.append((r, e))
        ctx.count('dea_calls_total_asserted')
        if 'capped' in _hist['branches'] and not capped_seen:
            capped_seen = True
            # the table holds limexp elements (rounded up to the next odd number): nothing is dropped for lack of room before
            # that many terms have been fed
            ctx.count('first_capping_asserted')
            if i + 1 < 2 * (limexp // 2) + 1:
                ctx.reject('dea_table_capped_before_limexp_terms', observed=i + 1, expected=2 * (limexp // 2) + 1,
                           detail=dict(limexp=limexp, branches=sorted(_hist['branches'])))
                return
        if meta.get('mode') == 4:
            # beyond the cap of the general finiteness clause: three terms of one sign below 8e307 still give a finite result
            # (the estimate, a multiple of the differences, may overflow there and is not judged)
            ctx.count('dea_finite_for_three_terms_near_top_of_range_asserted')
            if not math.isfinite(r):
                ctx.reject('dea_nonfinite', observed=[r, e], detail=dict(at_term=i + 1, limexp=limexp, seq=seq[:i + 1]), near_top_of_range=True)
                return
        if finite_in and not (math.isfinite(r) and not math.isnan(e)):
            ctx.reject('dea_nonfinite', observed=[r, e], detail=dict(at_term=i + 1, limexp=limexp))
            return
        if e < 0:
            ctx.reject('dea_negative_abserr', observed=[r, e], detail=dict(at_term=i + 1))
            return
        if finite_in and (i + 1) in tables and _hist['branches'] <= {'regular'}:
            # no guard has fired and the table is not capped: the routine is the plain epsilon
            # algorithm, so its result is one of the even-order entries of the newest anti-diagonal
            cols = tables[i + 1]
            cands = [cols[j][-1] for j in range(0, len(cols), 2) if cols[j]]
            scale = max(max(abs(v) for v in seq[:i + 1]), max(to_float(abs(c)) for c in cands))
            best = min(to_float(abs(F(r) - c)) for c in cands)
            ctx.count('dea_table_membership_asserted')
            tol = 1e-7 * scale + C_EPS * spreads[i + 1]
            ctx.maximum('dea_membership_err/(1e-7*scale+C*spread)', best / tol if tol > 0 else 0.0)
            if scale > 0 and best > tol:
                ctx.reject('dea_result_is_no_even_entry_of_the_epsilon_table', observed=r,
                           expected=[to_float(c) for c in cands], detail=dict(at_term=i + 1, seq=seq[:i + 1]))
                return
        elif finite_in and limexp <= 11 and i >= 2 and not (_hist['branches'] <= {'regular'}) and meta.get('epsalg') is not False:
            # a guard has fired or the table is capped at limexp: the routine only ever *drops* entries of its condensed table, and
            # eps_j^(i-j) depends on the last j + 1 terms alone, so the result is still an even-order entry of the newest
            # anti-diagonal - of the exact table of the last limexp + 1 terms.  Judged where that table is well conditioned.
            suffix = seq[max(0, i - limexp):i + 1]
            cols_s, ok_s = wynn_table(suffix)
            if ok_s and len(suffix) >= 3 and _min_rel_diff(cols_s) >= 1e-3:
                ex_s = _even_entry(cols_s, len(suffix))
                sp_s = _spread_mp(suffix, len(suffix), ex_s, prng, 4) if ex_s is not None else None
                if sp_s is not None:
                    cands = [cols_s[j][-1] for j in range(0, len(cols_s), 2) if cols_s[j]]
                    scale = max(max(abs(v) for v in suffix), max(to_float(abs(c)) for c in cands))
                    best = min(to_float(abs(F(r) - c)) for c in cands)
                    ctx.count('dea_table_membership_after_guards_or_cap_asserted')
                    tol = 1e-7 * scale + C_EPS * _spread_mp.any_even
                    ctx.maximum('dea_membership_after_guards_err/tol', best / tol if tol > 0 else 0.0)
                    if scale > 0 and best > tol:
                        ctx.reject('dea_result_is_no_even_entry_of_the_epsilon_table', observed=r,
                                   expected=[to_float(c) for c in cands], detail=dict(at_term=i + 1, seq=suffix, limexp=limexp,
                                                                                       after=sorted(_hist['branches'])),
                                   after_guards_or_cap=True)
                        return
        if i >= 2:
            ctx.count('dea_floor_asserted')
            if not e >= 5.0 * EPS * abs(r) * (1 - 4 * EPS):
                ctx.reject('dea_abserr_below_5eps_floor', observed=[r, e],
                           detail=dict(at_term=i + 1, limexp=limexp, floor=5.0 * EPS * abs(r),
                                       constant_tail=bool(i >= 1 and seq[i] == seq[i - 1]),
                                       n_state_after=int(dea._n)),
                           estimate_came_from_dea_routine=bool(_hist['dea_called']))
                return
    if case['seed'] % 4 == 1 and N >= 3:
        # two more instances of the same table size alive at the same time, fed alternately (this sequence and its mirror image):
        # each is a function of its own terms only - the same results as the instance that was fed alone
        def _hx(p_):
            return [float(v).hex() for v in p_]
        other = [seq[0] + seq[-1] - v for v in seq][::-1]
        other = [v if math.isfinite(v) else 0.0 for v in other]
        try:
            d1, d2 = Dea(limexp), Dea(limexp)
            got1, got2 = [], []
            for s1, s2 in zip(given, other):
                got1.append(_hx(d1(s1)))
                got2.append(_hx(d2(s2)))
            d3 = Dea(limexp)
            ref2 = [_hx(d3(s2)) for s2 in other]
        except Exception as exc:
            ctx.reject('dea_raised', observed=repr(exc)[:200], detail=dict(limexp=limexp, interleaved=True), exc_type=type(exc).__name__)
            return
        ctx.count('dea_interleaved_instances_compared')
        ref1 = [_hx(o) for o in outs]
        if got1 != ref1 or got2 != ref2:
            k_ = next(i_ for i_ in range(N) if got1[i_] != ref1[i_] or got2[i_] != ref2[i_])
            ctx.reject('dea_result_depends_on_another_live_instance', observed=[got1[k_], got2[k_]], expected=[ref1[k_], ref2[k_]],
                       detail=dict(at_term=k_ + 1, limexp=limexp, seq=seq[:k_ + 1]))
            return
    # first three terms
    if N >= 1 and outs[0][0] != seq[0]:
        ctx.reject('dea_first_term', observed=outs[0][0], expected=seq[0])
        return
    if N >= 2 and outs[1][0] != seq[1]:
        ctx.reject('dea_second_term', observed=outs[1][0], expected=seq[1])
        return
    # the relative rounding model behind the tolerances below needs the three terms, their differences and the
    # reciprocals of those well inside the normal range (the totality clauses above are asserted everywhere)
    d3 = [abs(seq[1] - seq[0]), abs(seq[2] - seq[1])] if N >= 3 else []
    normal3 = N >= 3 and all(v == 0 or 1e-150 <= abs(v) <= 1e100 for v in list(seq[:3]) + d3)
    if N >= 3 and finite_in and not normal3:
        ctx.count('dea_first_three_outside_normal_range(not compared)')
    if N >= 3 and finite_in and normal3:
        r3, e3 = (dea3(given[0], given[1], given[2]) if meta.get('raw') else
                  dea3(np.float64(seq[0]), np.float64(seq[1]), np.float64(seq[2])))
        r3, e3 = float(r3[0]), float(e3[0])
        ctx.count('dea_first_three_asserted')
        tol = 4 * max(math.ulp(r3), math.ulp(seq[1]))
        if not abs(outs[2][0] - r3) <= tol:
            ctx.reject('dea_third_term_differs_from_dea3', observed=outs[2][0], expected=r3,
                       detail=dict(seq=seq[:3]))
            return
        sh = shanks3(*seq[:3])
        if sh is not None:
            S, corr, d1, d2, sss = sh
            tol1 = Fraction(max(abs(seq[1]), abs(seq[0]))) * Fraction(EPS)
            tol2 = Fraction(max(abs(seq[2]), abs(seq[1]))) * Fraction(EPS)
            inv = 1 / abs(d1) + 1 / abs(d2)
            crit = abs(sss) * abs(F(seq[1]))
            out_guard = (abs(d1) > 2 * tol1 and abs(d2) > 2 * tol2 and
                         crit - 4 * Fraction(EPS) * inv * abs(F(seq[1])) > Fraction(12, 100000))
            if out_guard:
                ctx.count('dea_third_term_outside_guards')
                if not abs(outs[2][1] - e3) <= 8 * math.ulp(e3):
                    ctx.reject('dea_third_term_abserr_differs_from_dea3', observed=outs[2][1], expected=e3,
                               detail=dict(seq=seq[:3]))
                    return
                # (EpsAlg treats |difference| <= 1e-60 as vanished, whatever the scale: see the finding
                # epsalg-absolute-vanishing-threshold, reported where the guard is observed; not compared here)
                inv_gap = abs(1 / d1 - 1 / d2)
                absolute_guard = min(abs(d1), abs(d2), inv_gap) <= Fraction(1, 10 ** 59)
                if len(ea_out) >= 3 and not absolute_guard:
                    fc = to_float(abs(corr))
                    b = 16 * EPS * (abs(seq[1]) + fc + to_float(abs(S)) + fc * fc * to_float(inv))
                    if not (abs(outs[2][0] - to_float(S)) <= b and abs(float(ea_out[2]) - to_float(S)) <= b):
                        ctx.reject('dea_third_term_differs_from_epsalg_or_shanks',
                                   observed=[outs[2][0], float(ea_out[2])], expected=to_float(S),
                                   detail=dict(seq=seq[:3]))
                        return
    if N >= 5:
        lb = 0 if N < 16 else 1 if N < 60 else 2
        xb = 0 if limexp < 6 else 1 if limexp < 12 else 2
        ctx.nontrivial((case['family'], case['k'], lb, xb, sorted(_hist['branches'])))
    if len(ctx.samples) < 2:
        ctx.sample(dict(case=case, first_terms=seq[:6], epsalg_first=ea_out[:6], dea_first=outs[:6]))


def classify(wit):
    chk = wit.get('check')
    facts = wit.get('facts') or {}
    det = wit.get('detail') or {}
    if chk == 'dea_raised' and facts.get('exc_type') == 'IndexError' and \
            det.get('n_state', -1) >= 2 * (wit['case']['limexp'] // 2) + 1:
        return 'dea-table-overflow-after-convergence'
    if chk == 'dea_abserr_below_5eps_floor' and facts.get('estimate_came_from_dea_routine') is False:
        return 'dea-floor-not-applied-on-restart-path'
    if chk == 'epsalg_vanishing_guard_fired_on_resolved_differences' and \
            facts.get('smallest_difference_below_the_absolute_1e60_threshold') is True:
        return 'epsalg-absolute-vanishing-threshold'
    return None


TECHNIQUE = ('runtime monitoring: per-instance call histories checked offline against an exact-rational Wynn table; '
             'sys.monitoring observer on Dea._dea for branch reach')
LEVEL_TEXT = ('exploration: every value returned along term-by-term histories is decided by an exact epsilon table '
              '(EpsAlg, well-conditioned prefixes) or by totality/floor/dea3-agreement invariants (Dea)')
LEVEL_NOTE = 'trusts CPython Fraction arithmetic; conditioning measured by +-1ulp input perturbation of the exact table'
