"""C08 - array inputs are handled elementwise and keep their shape; extra arguments forwarded.

Metamorphic oracle (no exact derivative needed): the test functions use only correctly
rounded operations (+ - * / sqrt), so f itself is bit-wise elementwise and any dependence of
out[p] on the other elements of x is the library's.
"""
import numpy as np

from vf.boundary import Recorder

ID = 'C08'
NSHARDS = dict(quick=8, thorough=16)
BUDGET = dict(quick=1600, thorough=60000)
ANCHORS = ['numdifftools.finite_difference:LogRule._vstack', 'numdifftools.limits:_Limit._get_arg_min',
           'numdifftools.limits:_Limit._add_error_to_outliers', 'numdifftools.limits:_Limit._get_best_estimate',
           'numdifftools.core:Derivative._get_functions']
MIN_COUNTERS = dict(quick={'shape_asserted': 1400, 'neighbour_independence_asserted': 1000,
                           'scalar_equivalence_asserted:bitwise': 600, 'scalar_equivalence_asserted:within_estimate': 200,
                           'forwarding_asserted': 1400, 'cases_where_columns_chose_different_rows': 300,
                           'cases_with_nonfinite_neighbours': 15, 'scalar_sweep_points_asserted': 20000},
                    thorough={'neighbour_independence_asserted': 30000})
RULE = ('Replacement neighbours include values outside the domain, at poles and of extreme magnitude (1e13..1e17, 1e-300). ' 
        'shapes with 0..3 axes and <= 40 elements; methods central/forward/backward/complex/multicomplex; n <= 4, order <= 6; '
        'six elementwise test functions built from + - * / sqrt (some with a bounded domain, so replaced neighbours can make '
        'steps leave the domain); the other elements are replaced by random values, then the element is evaluated alone as a '
        'scalar. distinct non-trivial = (rank, method, n, function) for cases where the per-column row choice observed in '
        '_get_arg_min really differs between columns (so a shared choice would show)')
ASSUMPTIONS = ['+ - * / sqrt are correctly rounded in numpy for float64 (and elementwise for complex128), so f is bit-wise '
               'elementwise', 'complex-step methods: array and scalar numpy kernels for complex arithmetic differ in the last '
               'bits, hence agreement within the sum of the two error estimates (plus 64 eps |value|) instead of bit-identity']
EPS = 2.0 ** -52
METHODS = ['central', 'forward', 'backward', 'complex', 'multicomplex']
_seen = {}


def f_cubic(x, a=1.0, b=2.0):
    return a * x * x * x - b * x


def f_rational(x, a=1.0, b=1.0):
    return a / (b + x * x)


def f_sqrt(x, a=1.0, b=0.0):
    return a * np.sqrt(x + b)


def f_mobius(x, a=1.0, b=2.0):
    return (x - a) / (x + b)


def f_xsqrt(x, a=1.0, b=1.0):
    return x * np.sqrt(b + a * x * x)


def f_recip(x, a=1.0, b=1.0):
    return a * x * x + b / x


def f_pure_cube(x):
    return x * x * x


def f_quartic(x, a=1.0, b=0.0):
    return a * (x * x) * (x * x) + b


FUNS = dict(quartic=f_quartic, cubic=f_cubic, rational=f_rational, sqrt=f_sqrt, mobius=f_mobius, xsqrt=f_xsqrt, recip=f_recip)


def setup(ctx, mon):
    import numdifftools  # noqa

    def on_argmin(frame, ret):
        try:
            shape = frame.f_locals['shape']
            rows = np.asarray(ret) // shape[1]
            _seen['rows'] = rows
            errs = np.asarray(frame.f_locals['errors'])
            _seen['errors'] = np.array(errs, copy=True)
            has_all_nan = bool(np.any(np.all(np.isnan(errs), axis=0)))
            # "gave up": a column without any valid estimate made every column take the first row
            _seen['gave_up'] = bool(has_all_nan and shape[1] > 1 and np.all(rows == 0)
                                    and np.array_equal(np.asarray(ret), np.arange(shape[1])))
        except Exception:
            pass
    for a in ANCHORS:
        mon.watch(a, on_return=on_argmin if a.endswith('_get_arg_min') else None)


def cases(rng, tier, shard, nshards):
    for i in range(BUDGET[tier] // nshards):
        rank = int(rng.integers(0, 4))
        while True:
            shape = [int(s) for s in rng.integers(1, 7, size=rank)]
            if int(np.prod(shape)) <= 40:
                break
        method = METHODS[i % 5]
        n = int(rng.integers(1, 3)) if method == 'multicomplex' else int(rng.integers(1, 5))
        yield dict(shape=shape, method=method, n=n, order=int(rng.choice([1, 2, 3, 4, 6])),
                   fun=str(rng.choice(list(FUNS))), seed=int(rng.integers(0, 2 ** 31)),
                   hostile=bool(rng.random() < 0.4), use_args=int(rng.integers(0, 3)))


    # scalar sweeps: many points beyond 1 in magnitude, each evaluated inside one array and alone (as float, numpy scalar, 0-d array)
    total = dict(quick=24000, thorough=400000)[tier] // nshards
    for i in range(max(total // 250, 1)):
        yield dict(kind='scalar_sweep', count=250, cfg=int(rng.integers(0, len(SWEEP_CFGS))), seed=int(rng.integers(0, 2 ** 31)))


SWEEP_CFGS = [('forward', 1, 1, dict(num_steps=3)), ('central', 1, 2, {}), ('backward', 2, 2, dict(num_steps=4)), ('central', 2, 2, {}),
              ('forward', 1, 2, {})]


def run_sweep(case, ctx):
    """The steps of an element depend on |x| through a logarithm: whichever way that is computed, an element gets the same steps inside
    an array and alone.  Differences of one ulp in a step show in a few points in ten thousand only - hence many cheap points."""
    import numdifftools as nd
    rng = np.random.default_rng(case['seed'])
    method, n, order, kw = SWEEP_CFGS[case['cfg']]
    f = [f_pure_cube, f_quartic][case['seed'] % 2]
    x = 10.0 ** rng.uniform(0.001, 2.0, size=case['count']) * rng.choice([-1.0, 1.0], size=case['count'])
    d = nd.Derivative(f, method=method, n=n, order=order, **kw)
    try:
        with np.errstate(all='ignore'):
            arr = np.asarray(d(x.copy()), dtype=float)
            for k in range(case['count']):
                xk = [float(x[k]), np.float64(x[k]), np.array(x[k])][k % 3]
                sk = np.asarray(d(xk), dtype=float).reshape(())
                ctx.count('scalar_sweep_points_asserted')
                if _bits(sk) != _bits(arr[k]):
                    ctx.reject('scalar_call_differs_from_array_element', observed=float(sk), expected=float(arr[k]), method=method,
                               detail=dict(x=float(x[k]), n=n, order=order, options=kw, given_as=type(xk).__name__, sweep=True))
                    return
    except Exception as exc:
        ctx.reject('raised', observed=repr(exc)[:200], method=method, detail=dict(sweep=True))
        return
    ctx.nontrivial(('sweep', method, n, order))


def _bits(a):
    return np.ascontiguousarray(np.asarray(a)).tobytes()


def run_case(case, ctx):
    if case.get('kind') == 'scalar_sweep':
        return run_sweep(case, ctx)
    import numdifftools as nd
    rng = np.random.default_rng(case['seed'])
    shape = tuple(case['shape'])
    size = int(np.prod(shape)) if shape else 1
    method, n, order = case['method'], case['n'], case['order']
    f = FUNS[case['fun']]
    a, b = float(rng.uniform(0.5, 2.0)), float(rng.uniform(0.5, 2.0))
    if case['use_args'] == 0:
        args, kwds = (), {}
    elif case['use_args'] == 1 and case['seed'] % 3 == 1 and case['fun'] != 'sqrt':
        # one extra argument that is itself a container (a tuple, a list, a dict of parameters): it is f's argument, as a whole
        box = [(a, b), [a, b], dict(a=a, b=b), (a,), ()][(case['seed'] // 3) % 5]
        ctx.count('single_extra_argument_is_a_container:' + type(box).__name__)
        f_plain = f

        def f(x_, params):
            if isinstance(params, dict):
                return f_plain(x_, params['a'], params['b'])
            return f_plain(x_, *params)
        args, kwds = (box,), {}
    elif case['use_args'] == 1:
        args, kwds = (a,), {}
    elif case['seed'] % 4 == 2:
        # every extra parameter by keyword, none positionally
        args, kwds = (), (dict(a=a, b=b) if case['seed'] % 8 == 2 else dict(b=b))
        ctx.count('extra_parameters_by_keyword_only')
    else:
        args, kwds = (a,), dict(b=b)
        kwname = ['b', 'b', 'step', 'method', 'order', 'n', 'full_output', 'richardson_terms'][(case['seed'] // 3) % 8]
        if kwname != 'b' and case['fun'] != 'sqrt':
            # the keyword of f carries a name that is also an option of Derivative itself: a keyword of the call belongs to f
            ctx.count('keyword_of_f_named_like_an_option_of_the_class')
            f_named = f

            def f(x_, a_=1.0, **kw_):
                return f_named(x_, a_, kw_[kwname]) if kwname in kw_ else f_named(x_, a_)
            kwds = {kwname: b}
    # in-domain values for every element
    lo = 0.3 if case['fun'] in ('sqrt', 'recip', 'mobius') else -3.0
    x = rng.uniform(lo, 3.0, size=size)
    x = np.where(np.abs(x) < 0.2, 0.7, x).reshape(shape)
    if case['seed'] % 7 == 3 and shape and size >= 2:
        # elements that are nearly (1e-9 .. 1e-5 relative) but not exactly equal, beyond 1 in magnitude: their steps differ in the
        # last digits only
        base_ = float(rng.choice([-1.0, 1.0]) * rng.uniform(1.5, 3.0))
        x = (base_ * (1.0 + rng.choice([-1.0, 1.0], size=size) * 10.0 ** rng.uniform(-9, -5, size=size))).reshape(shape)
        x.flat[0] = base_
        ctx.count('nearly_equal_elements')
    if case['seed'] % 5 == 0:
        # polynomials at dyadic points: the differences are computed without rounding, so several rows of the table carry
        # *exactly* equal error estimates (ties) - which row wins must not depend on the other elements of the array
        f = [f_pure_cube, f_quartic][case['seed'] // 5 % 2]
        args, kwds = (), {}
        if case['seed'] // 10 % 2 and method != 'multicomplex' and method != 'complex':
            # the configurations whose tables are short and exact enough for ties to be frequent
            method, n, order = [('forward', 1, 2), ('backward', 1, 2), ('central', 2, 2), ('central', 1, 4), ('forward', 1, 4),
                                ('backward', 1, 1)][int(rng.integers(0, 6))]
        if len(shape) == 1:
            shape = (int(rng.integers(20, 41)),)         # (many elements: ties are rare)
            size = shape[0]
        x = (rng.integers(4, 49, size=size) / 16.0 * rng.choice([-1.0, 1.0], size=size)).reshape(shape)
        ctx.count('polynomials_at_dyadic_points')
    lay = ['C', 'F', 'swapped', 'C'][case['seed'] % 4] if len(shape) >= 2 else 'C'

    def laid_out(a):
        # the same logical array in another memory layout
        if lay == 'F':
            return np.asfortranarray(a)
        if lay == 'swapped':
            return np.ascontiguousarray(np.swapaxes(a, 0, -1)).swapaxes(0, -1)
        return a.copy()
    if lay != 'C':
        ctx.count('x_memory_layout:' + lay)
    rec = Recorder(f)
    d = nd.Derivative(rec, method=method, n=n, order=order, full_output=True)
    try:
        with np.errstate(all='ignore'):
            if case['seed'] % 3 == 0:
                # the object has served a call with other extra arguments (and another shape) before
                ctx.count('object_called_before_with_other_extra_arguments')
                try:
                    d(np.array([0.9, 1.1, 1.3]), 1.75, b=0.625)
                except Exception:
                    pass
                del rec.calls[:]
            x_arg = laid_out(x) if shape else float(x)
            if shape and case['seed'] % 4 == 1:
                # the same object was called before with this very array, when it held other points (of other magnitudes):
                # the caller updates the array in place between the calls
                ctx.count('same_array_updated_in_place_between_calls')
                x_arg[...] = x * 37.5 + 0.25
                try:
                    d(x_arg, *args, **kwds)
                except Exception:
                    pass
                x_arg[...] = x
                del rec.calls[:]
            out, info = d(x_arg, *args, **kwds)
            if shape:
                ctx.count('callers_array_unchanged_asserted')
                if _bits(x_arg) != _bits(x):
                    ctx.reject('callers_array_modified', observed=np.ravel(x_arg)[:6], expected=np.ravel(x)[:6], method=method)
                    return
    except Exception as exc:
        ctx.reject('raised', observed=repr(exc)[:200], method=method)
        return
    rows_full = _seen.get('rows')
    gave_up_full = bool(_seen.get('gave_up'))
    errors_full = _seen.get('errors')        # the table of error estimates the row choice was made from (rows x elements)

    def record_differs(q, info_q):
        # the rest of the record of element q (error estimate, final step, chosen index row) against its scalar call
        if gave_up_full:
            return False
        ctx.count('scalar_records_compared')
        for name in ('error_estimate', 'final_step'):
            a_ = np.float64(np.asarray(getattr(info, name)).flat[q])
            b_ = np.float64(np.asarray(getattr(info_q, name)).ravel()[0])
            if _bits(a_) != _bits(b_):
                ctx.reject('scalar_call_differs_from_array_element', observed=float(b_), expected=float(a_), method=method,
                           detail=dict(position=q, what=name), row_choice_gave_up_for_all_columns=gave_up_full)
                return True
        return False

    def table_column_differs(q):
        # the whole column of (penalised) error estimates of element q, as seen by the row choice in the array call and in the
        # scalar call just made: elementwise processing means the two are the same numbers
        es_ = _seen.get('errors')
        if errors_full is None or es_ is None or errors_full.ndim != 2 or es_.shape != (errors_full.shape[0], 1) \
                or errors_full.shape[1] != size:
            return False
        ctx.count('error_table_columns_compared')
        return _bits(np.asarray(errors_full[:, q], dtype=float)) != _bits(np.asarray(es_[:, 0], dtype=float))
    out = np.asarray(out)
    # (1) shape
    ctx.count('shape_asserted')
    if out.shape != shape:
        ctx.reject('shape', observed=list(out.shape), expected=list(shape), method=method)
        return
    # (4) forwarding
    for c in rec.calls:
        same_args = len(c.args) == len(args) and all(p is q for p, q in zip(c.args, args))
        same_kw = set(c.kwds) == set(kwds) and all(c.kwds[k] is kwds[k] for k in kwds)
        if not (same_args and same_kw):
            ctx.reject('extra_arguments_not_forwarded_unchanged', observed=[repr(c.args), repr(c.kwds)],
                       expected=[repr(args), repr(kwds)])
            return
    ctx.count('forwarding_asserted')
    if size == 1:
        pidx = 0
    else:
        pidx = int(rng.integers(0, size))
    xp = float(x.flat[pidx]) if shape else float(x)
    # (2) replace the neighbours
    if size > 1:
        y = x.copy()
        repl = rng.uniform(lo, 3.0, size=size)
        if case['hostile']:
            # neighbours at which some or all steps leave the domain / hit the pole
            hostile_vals = dict(sqrt=[1e-3, 1e-6, -0.5], recip=[1e-3, -1e-3, 1e-9], mobius=[-2.0, -1.999, -2.3],
                                rational=[1e3, -1e3, 0.0], cubic=[1e6, -1e6, 0.0], quartic=[1e5, -1e5, 0.0], xsqrt=[1e5, 0.0, -1e5])[case['fun']]
            # ... and neighbours of a very different magnitude (huge ones swallow every step: x + h == x)
            hostile_vals = hostile_vals + ([1e13, 1e15, 1e17, 1e-300] if case['fun'] in ('sqrt', 'recip', 'mobius')
                                           else [1e13, -1e15, 1e17, -1e-300])
            if case['fun'] == 'sqrt' and kwds.get('b') is not None:
                hostile_vals = [v - kwds['b'] for v in hostile_vals]
            mask = rng.random(size) < 0.5
            repl = np.where(mask, rng.choice(hostile_vals, size=size), repl)
        y.flat[:] = repl
        y.flat[pidx] = xp
        try:
            with np.errstate(all='ignore'):
                out2, info2 = d(laid_out(y), *args, **kwds)
        except Exception as exc:
            ctx.reject('raised_after_replacing_neighbours', observed=repr(exc)[:200], method=method,
                       neighbours=y.ravel())
            return
        out2 = np.asarray(out2)
        if case['hostile'] and not np.all(np.isfinite(out2)):
            ctx.count('cases_with_nonfinite_neighbours')
        ctx.count('neighbour_independence_asserted')
        rows_repl = _seen.get('rows')
        if rows_repl is not None and len(set(np.asarray(rows_repl).tolist())) > 1:
            ctx.count('cases_where_columns_chose_different_rows')
            ctx.nontrivial((len(shape), method, n, case['fun']))
        o1 = np.asarray(out).flat[pidx]
        o2 = out2.flat[pidx]
        same = _bits(o1) == _bits(o2)
        e1 = np.asarray(info.error_estimate).flat[pidx]
        e2 = np.asarray(info2.error_estimate).flat[pidx]
        s1, s2 = np.asarray(info.final_step).flat[pidx], np.asarray(info2.final_step).flat[pidx]
        if not (same and _bits(e1) == _bits(e2) and _bits(s1) == _bits(s2)):
            ctx.reject('element_depends_on_other_elements', observed=[float(o2), float(e2), float(s2)],
                       expected=[float(o1), float(e1), float(s1)],
                       detail=dict(position=pidx, x_p=xp, neighbours=y.ravel()[:8]),
                       method=method, row_choice_gave_up_for_all_columns=bool(_seen.get('gave_up')))
            return
    # (3) the element alone, as a scalar
    try:
        with np.errstate(all='ignore'):
            outs, infos = d(xp, *args, **kwds)
    except Exception as exc:
        ctx.reject('raised_on_scalar', observed=repr(exc)[:200], method=method)
        return
    outs = np.asarray(outs)
    if outs.shape != ():
        ctx.reject('scalar_shape', observed=list(outs.shape), expected=[])
        return
    o1 = np.asarray(out).flat[pidx] if shape else np.asarray(out)[()]
    e1 = float(np.asarray(info.error_estimate).flat[pidx])
    if method in ('central', 'forward', 'backward'):
        ctx.count('scalar_equivalence_asserted:bitwise')
        if shape and not gave_up_full and table_column_differs(pidx):
            ctx.reject('scalar_call_differs_from_array_element', observed=_seen['errors'][:, 0], expected=errors_full[:, pidx], method=method,
                       detail=dict(position=pidx, x_p=xp, what='table of error estimates'), row_choice_gave_up_for_all_columns=gave_up_full)
            return
        if _bits(np.float64(o1)) != _bits(np.float64(outs)):
            ctx.reject('scalar_call_differs_from_array_element', observed=float(outs), expected=float(o1), method=method,
                       detail=dict(position=pidx, x_p=xp), row_choice_gave_up_for_all_columns=gave_up_full)
            return
        if shape and record_differs(pidx, infos):
            return
    else:
        ctx.count('scalar_equivalence_asserted:within_estimate')
        es = float(np.asarray(infos.error_estimate))
        tol = e1 + es + 64 * EPS * abs(float(o1))
        if np.isfinite(o1) and not abs(float(outs) - float(o1)) <= tol:
            ctx.reject('scalar_call_differs_from_array_element', observed=float(outs), expected=float(o1), method=method,
                       detail=dict(position=pidx, x_p=xp, tol=tol))
            return
    # ... and every other element alone (up to 12 of them): a size-dependent code path shows for few elements only
    if shape and size > 1 and method in ('central', 'forward', 'backward'):
        others = [q for q in range(size) if q != pidx]
        if len(others) > 12:
            others = [int(v) for v in rng.choice(others, size=12, replace=False)]
        for q in others:
            xq = float(x.flat[q])
            try:
                with np.errstate(all='ignore'):
                    oq, _iq = d(xq, *args, **kwds)
            except Exception as exc:
                ctx.reject('raised_on_scalar', observed=repr(exc)[:200], method=method)
                return
            ctx.count('scalar_equivalence_asserted:bitwise')
            if not gave_up_full and table_column_differs(q):
                ctx.reject('scalar_call_differs_from_array_element', observed=_seen['errors'][:, 0], expected=errors_full[:, q], method=method,
                           detail=dict(position=q, x_p=xq, what='table of error estimates'), row_choice_gave_up_for_all_columns=gave_up_full)
                return
            if _bits(np.float64(np.asarray(out).flat[q])) != _bits(np.float64(np.asarray(oq))):
                ctx.reject('scalar_call_differs_from_array_element', observed=float(np.asarray(oq)), expected=float(np.asarray(out).flat[q]),
                           method=method, detail=dict(position=q, x_p=xq), row_choice_gave_up_for_all_columns=gave_up_full)
                return
            if record_differs(q, _iq):
                return
    if case['seed'] % 6 == 5 and shape and method in ('central', 'forward', 'backward'):
        # extra arguments belong to the call they were given to: a call with a = 2 is interrupted (f itself uses the object) by a
        # complete call with a = 3; both equal what a fresh object returns for them
        state = dict(k=0, busy=False, inner=None)
        holder = []

        def f_re(x_, a_=1.0, b=2.0):
            if a_ == 2.0 and not state['busy']:
                state['k'] += 1
                if state['k'] == 3:
                    state['busy'] = True
                    state['inner'] = holder[0](np.array(x, copy=True), 3.0, b=0.75)
                    state['busy'] = False
            return f_cubic(x_, a_, b)
        holder.append(nd.Derivative(f_re, method=method, n=n, order=order))
        try:
            with np.errstate(all='ignore'):
                outer = holder[0](np.array(x, copy=True), 2.0, b=1.25)
                ref_o = nd.Derivative(f_cubic, method=method, n=n, order=order)(np.array(x, copy=True), 2.0, b=1.25)
                ref_i = nd.Derivative(f_cubic, method=method, n=n, order=order)(np.array(x, copy=True), 3.0, b=0.75)
            ctx.count('overlapping_calls_with_different_arguments')
            if state['inner'] is None or _bits(outer) != _bits(ref_o) or _bits(state['inner']) != _bits(ref_i):
                ctx.reject('extra_arguments_not_forwarded_unchanged', observed=[np.ravel(outer)[:3], None if state['inner'] is None else np.ravel(state['inner'])[:3]],
                           expected=[np.ravel(ref_o)[:3], np.ravel(ref_i)[:3]], detail=dict(overlapping='re-entrant use'), method=method)
                return
        except Exception as exc:
            ctx.reject('raised', observed=repr(exc)[:200], method=method, detail=dict(overlapping=True))
            return
    if len(ctx.samples) < 3:
        ctx.sample(dict(case=case, x=x.ravel()[:5], out=np.asarray(out).ravel()[:5], position=pidx, scalar_result=float(outs)))


def classify(wit):
    f = wit.get('facts') or {}
    if wit.get('check') in ('element_depends_on_other_elements', 'scalar_call_differs_from_array_element') \
            and f.get('row_choice_gave_up_for_all_columns'):
        return 'all-nan-column-poisons-row-choice'
    return None


TECHNIQUE = ('runtime monitoring: metamorphic contracts on Derivative.__call__ (neighbour replacement, scalar re-evaluation), '
             'boundary recorder for argument forwarding, observer on _get_arg_min for per-column row choices')
LEVEL_TEXT = ('exploration: each observed array call is re-executed with replaced neighbours and as a scalar and compared '
              'bit for bit (real-step methods) or within the reported estimates (complex-step methods)')
LEVEL_NOTE = 'relies on + - * / sqrt being correctly rounded so that the test functions are bit-wise elementwise'
