"""C03 - Jacobian, Gradient, directionaldiff: right entries and shapes for any R^n -> R^m."""
import math

import numpy as np

from vf.props import _deriv as D

ID = 'C03'
NSHARDS = dict(quick=8, thorough=16)
BUDGET = dict(quick=2400, thorough=120000)
ANCHORS = ['numdifftools.core:Jacobian._derivative_nonzero_order', 'numdifftools.core:Gradient.__call__',
           'numdifftools.core:directionaldiff']
# watched for reach only (nothing is decided inside them: a refactoring may move them)
ALSO_WATCHED = ['numdifftools.core:Jacobian._expand_steps', 'numdifftools.finite_difference:LogJacobianRule._vstack',
                'numdifftools.finite_difference:JacobianDifferenceFunctions.increments']
MIN_COUNTERS = dict(quick={'jacobian_shape_asserted': 1200, 'affine_entries_asserted': 5000, 'smooth_entries_asserted': 2000,
                           'matrix_valued_asserted': 200, 'gradient_asserted': 200, 'directionaldiff_asserted': 150, 'directions_of_nearly_unit_length': 25,
                           'length_one_output_cases': 100, 'nested_gradient_cases': 40},
                    thorough={'affine_entries_asserted': 200000})
RULE = ('x also as list / tuple / plain float, Python ints with integer affine maps, float32 arrays. ' 
        'n in 1..8, m in 1..6, k in 1..4; families: affine A x + b (f returns a length-m vector, including m = 1), matrix-valued '
        'f(x)[i,l] = sum_j T[i,j,l] x_j + u_i(x) v_l with asymmetric T (result (m, n, k)), smooth sin(Ax) * exp(Bx) with the analytic '
        'Jacobian; all five methods, orders 2 and 4, default steps or a scalar step, x of both signs; Gradient on scalar f '
        '(x as vector or n1 x n2 array) and directionaldiff against Gradient . v/|v|. distinct non-trivial = (m, n, k, method, '
        'order, family) with a non-symmetric exact Jacobian')
ASSUMPTIONS = ['affine maps: every difference quotient is exact in exact arithmetic, so |J_ij - A_ij| <= C * eps * Lambda * (sum_j|A_ij||x_j| + '
               '|b_i| + |A_ij| h) / h with h the reported final step of that entry for the real-step methods (C = 64) and '
               'C * eps * Lambda * |A|-scale for complex / multicomplex',
               'smooth maps: |J - exact| <= 300 * error_estimate + 10 * eps * Lambda * M / h (honesty form; M bounds |f| on the stencil)',
               'Gradient equals the Jacobian row within both estimates; directionaldiff equals Gradient . v/|v| within '
               '300 * (est_dd + |v^| . est_grad) + rounding floor']
EPS = 2.0 ** -52
METHODS = ['central', 'forward', 'backward', 'complex', 'multicomplex']
C_AFF = 64.0


def setup(ctx, mon):
    D.setup_monitors(ctx, mon, ANCHORS + ALSO_WATCHED)


def cases(rng, tier, shard, nshards):
    for i in range(BUDGET[tier] // nshards):
        u = rng.random()
        kind = 'affine' if u < 0.4 else 'smooth' if u < 0.65 else 'matrix' if u < 0.75 else 'gradient' if u < 0.86 else 'ddiff' if u < 0.97 else 'nested'
        n = int(rng.integers(1, 9))
        yield dict(kind=kind, n=n, m=int(rng.integers(1, 7)), k=int(rng.integers(1, 5)), method=METHODS[i % 5],
                   order=int(rng.choice([2, 4])), seed=int(rng.integers(0, 2 ** 31)),
                   # C03 does not quantify over step generators: default steps, sometimes a scalar step
                   step=(dict(kind='default') if rng.random() < 0.7 else
                         dict(kind='scalar', value=float(10.0 ** rng.uniform(-5, -2))) if rng.random() < 0.6 else
                         # a step generator with a ratio of its own (rule, steps and extrapolation must all use it)
                         dict(kind='min', opts=dict(base_step=float(10.0 ** rng.uniform(-3, -1)), step_ratio=float(rng.choice([1.6, 3.0, 4.0])),
                                                    num_steps=int(rng.integers(8, 13))))),
                   xmat=bool(rng.random() < 0.4))


def _dot(row, z, n):
    s = row[0] * z[0]            # (no float start value: an integer row times an integer point stays an integer)
    for j in range(1, n):
        s = s + row[j] * z[j]
    return s


def _laid_out(a, case, ctx, salt=0):
    """the same logical matrix in C order, Fortran order, or as a strided view"""
    k = (case['seed'] // 3 + salt) % 4
    if k == 1:
        ctx.count('matrix_x_memory_layout:F')
        return np.asfortranarray(a)
    if k == 2:
        ctx.count('matrix_x_memory_layout:transposed_view')
        return np.ascontiguousarray(a.T).T
    if k == 3:
        ctx.count('matrix_x_memory_layout:strided')
        big = np.zeros((a.shape[0], 2 * a.shape[1]))
        big[:, ::2] = a
        return big[:, ::2]
    return a


def _as_given(x, case, ctx, salt=0):
    """the same point as ndarray (mostly), list, tuple, or - for a single variable - a plain float"""
    k = (case['seed'] // 7 + salt) % 10
    if k == 0:
        ctx.count('x_given_as:list')
        return np.asarray(x).tolist()
    if k == 1:
        ctx.count('x_given_as:tuple')
        v = np.asarray(x).tolist()
        return tuple(tuple(r) if isinstance(r, list) else r for r in v)
    if k == 2 and np.size(x) == 1 and np.ndim(x) == 1:
        ctx.count('x_given_as:scalar')
        return float(np.asarray(x)[0])
    if isinstance(x, np.ndarray) and x.ndim >= 2 and not x.flags['C_CONTIGUOUS']:
        return x                      # (keep the memory layout under test)
    return np.array(x, copy=True)


def run_nested(case, ctx, nd, rng):
    """f: R^n -> R^n is itself a numerical gradient (the Hessian-by-nesting idiom): f = Gradient(g), Jacobian(f)(x) is the
    Hessian of g.  The inner object differentiates a function of the same number of variables while the outer call is in
    progress; the inner method is a real-step one or the complex step, the outer one any method whose points stay real."""
    n = min(case['n'], 4)
    method = case['method'] if case['method'] in ('central', 'forward', 'backward') else 'central'
    order = case['order']
    inner_method = ['central', 'complex', 'forward'][case['seed'] % 3]
    x = rng.choice([-1, 1], size=n) * np.round(rng.uniform(0.2, 1.5, size=n), 3)
    Q = np.round(rng.normal(size=(n, n)), 2)
    Q = Q + Q.T
    c = np.round(rng.normal(size=n) * 0.5, 2)

    def g(z):
        z = np.asarray(z)
        return 0.5 * np.dot(z, np.dot(Q, z)) + np.exp(np.dot(c, z))
    H = Q + np.exp(float(np.dot(c, x))) * np.outer(c, c)
    inner = nd.Gradient(g, method=inner_method)
    try:
        with np.errstate(all='ignore'):
            J = np.asarray(nd.Jacobian(lambda z: np.atleast_1d(inner(z)), method=method, order=order)(x.copy()), dtype=float)
    except Exception as exc:
        ctx.reject('jacobian_raised', observed='%s: %s' % (type(exc).__name__, str(exc)[:150]), kind='nested', method=method, n=n)
        return
    ctx.count('nested_gradient_cases')
    if J.shape != (n, n):
        ctx.reject('jacobian_shape', observed=list(J.shape), expected=[n, n], kind='nested')
        return
    scale = float(np.max(np.abs(H))) + 1.0
    err = float(np.max(np.abs(J - H)))
    ctx.maximum('nested_err/scale:%s:%s' % (method, inner_method), err / scale)
    # (coarse on purpose: the inner gradient carries ~1e-12 of noise which the outer difference quotient amplifies by 1/h)
    if not err <= 1e-6 * scale:
        ctx.reject('jacobian_entry', observed=J, expected=H, detail=dict(err=err, inner_method=inner_method), kind='nested',
                   method=method, n=n, order=order)
        return
    ctx.nontrivial((n, n, 0, method, order, 'nested', inner_method))


def run_case(case, ctx):
    import numdifftools as nd
    rng = np.random.default_rng(case['seed'])
    kind, n, m, k, method, order = case['kind'], case['n'], case['m'], case['k'], case['method'], case['order']
    if kind == 'nested':
        return run_nested(case, ctx, nd, rng)
    x = rng.choice([-1, 1], size=n) * np.round(10.0 ** rng.uniform(-1.5, 0.7, size=n), 4)
    A = np.round(rng.normal(size=(m, n)) * 2, 3)
    A[np.abs(A) < 0.1] = 0.7
    B = np.round(rng.normal(size=(m, n)) * 0.3, 3)
    b = np.round(rng.normal(size=m), 3)
    int_x = kind in ('affine', 'smooth') and case['seed'] % 8 == 0
    if int_x:
        # the point handed over as Python ints; for the affine map also integer coefficients, so that f(x) itself is an
        # integer array (the values at the shifted points are not)
        ctx.count('integer_typed_x_cases')
        x = rng.integers(1, 5, size=n) * rng.choice([-1, 1], size=n)
        if kind == 'affine':
            A = np.rint(A * 2).astype(int)
            A[A == 0] = 1
            b = np.rint(b * 3).astype(int)
    if case['seed'] % 8 == 2 and n >= 2:
        # coordinates of nearly (not exactly) the same size: their default steps differ in the last digits only
        ctx.count('nearly_equal_coordinates_cases')
        base = float(rng.choice([-1, 1]) * 10.0 ** rng.uniform(0.05, 0.7))
        x = np.array([base * (1.0 + (0.0 if j == 0 else float(rng.choice([-1, 1]) * 10.0 ** rng.uniform(-9, -5.3)))) *
                      (1.0 if rng.random() < 0.7 else -1.0) for j in range(n)])
    if case['step']['kind'] == 'min' and kind != 'affine':
        # (generators with their own ratio are drawn for the affine maps only: the envelopes of the other families are stated for
        # the default steps and a user-chosen scalar step, C03 does not quantify over step generators)
        case = dict(case, step=dict(kind='default'))
    f32_x = kind in ('affine', 'smooth') and case['seed'] % 8 == 1 and case['step']['kind'] != 'min'
    if f32_x:
        # the point handed over as a float32 array (the maps themselves compute in float64)
        ctx.count('float32_x_cases')
        x = x.astype(np.float32).astype(float)
    step = D.build_step(nd, case['step'])
    kw = dict(method=method, order=order, step=step, full_output=True)
    D._OBS.clear()

    def lam():
        return max(D._OBS.get('rule_abs', 1.0), 1.0) * max(D._OBS.get('rich_abs', 1.0), 1.0)

    cancel_free = method == 'multicomplex' or (method == 'complex' and order < 4)
    if kind in ('affine', 'smooth'):
        # (f hands its vector back as an ndarray: a list or tuple makes the library's own f(x+h) - f(x-h) raise TypeError, a loud
        # refusal that the statement - "returned as a length-m vector" - does not exclude)
        wrap_out = np.array
        if kind == 'affine':
            gain_kw = {}
            if case['seed'] % 5 == 4 and not int_x:
                # a parameter of f given at call time, by keyword only: Jacobian(f)(x, gain=2.5)
                gain_kw = dict(gain=2.5)
                ctx.count('parameter_of_f_given_by_keyword_at_call_time')

            def f(z, gain=1.0):
                return wrap_out([gain * _dot(A[i], z, n) + b[i] for i in range(m)])
            exact = A.astype(float) * gain_kw.get('gain', 1.0)
        else:
            def f(z):
                return wrap_out([np.sin(_dot(A[i], z, n)) * np.exp(_dot(B[i], z, n)) for i in range(m)])
            sa, ca, eb = np.sin(A @ x), np.cos(A @ x), np.exp(B @ x)
            exact = ca[:, None] * A * eb[:, None] + sa[:, None] * eb[:, None] * B
        try:
            with np.errstate(all='ignore'):
                x_arg = [int(v) for v in x] if int_x else x.astype(np.float32) if f32_x else _as_given(x, case, ctx)
                x_then = np.array(x_arg, copy=True) if isinstance(x_arg, np.ndarray) else None
                jobj = nd.Jacobian(f, **kw)
                if case['seed'] % 4 == 1 and 'order' in kw:
                    # history: the object was built for, and has served, another order (on the other side of 4) before the order of
                    # this case was assigned to it
                    alt_order = {1: 4, 2: 4, 3: 6}.get(int(kw['order']), 2)
                    ctx.count('object_served_another_order_before')
                    jobj = nd.Jacobian(f, **dict(kw, order=alt_order))
                    try:
                        jobj(np.array(x, dtype=float))
                    except Exception:
                        pass
                    jobj.order = kw['order']
                    D._OBS.clear()
                if x_then is not None and x_arg.dtype == np.float64 and case['seed'] % 3 == 0:
                    # history: the same object was called before with this very array, holding another point then (the caller
                    # updates its state vector in place between the calls)
                    ctx.count('same_array_updated_in_place_between_calls')
                    x_arg[...] = x_then * 1.0625 + 0.03125
                    try:
                        jobj(x_arg)
                    except Exception:
                        pass
                    x_arg[...] = x_then
                    D._OBS.clear()
                J, info = jobj(x_arg, **(gain_kw if kind == 'affine' else {}))
                if x_then is not None:
                    ctx.count('callers_array_unchanged_asserted')
                    if x_arg.tobytes() != x_then.tobytes():
                        ctx.reject('callers_array_modified', observed=x_arg, expected=x_then, kind=kind, method=method)
                        return
        except Exception as exc:
            ctx.reject('jacobian_raised', observed='%s: %s' % (type(exc).__name__, str(exc)[:150]),
                       kind=kind, m=m, n=n, method=method, length_one_output=bool(m == 1))
            return
        J = np.asarray(J)
        ctx.count('jacobian_shape_asserted')
        if m == 1:
            ctx.count('length_one_output_cases')
        if J.shape != (m, n):
            ctx.reject('jacobian_shape', observed=list(J.shape), expected=[m, n], kind=kind, method=method, m=m, n=n)
            return
        est = np.abs(np.asarray(info.error_estimate, dtype=float)).reshape(m, n)
        h = np.abs(np.asarray(info.final_step)).reshape(m, n)
        L = lam()
        worst, at = 0.0, None
        for i in range(m):
            for j in range(n):
                err = abs(J[i, j] - exact[i, j])
                if kind == 'affine':
                    mag = float(np.sum(np.abs(A[i]) * np.abs(x)) + abs(b[i]))
                    if cancel_free:
                        bound = C_AFF * EPS * L * (abs(A[i, j]) + mag * EPS)
                    else:
                        bound = C_AFF * EPS * L * (mag + abs(A[i, j]) * h[i, j]) / h[i, j]
                    if case['step']['kind'] in ('min', 'max'):
                        # a user-supplied sequence: the rule and the extrapolation combine quotients taken at steps down to
                        # ratio**-(order + 2) of the reported final step, each with its own rounding error; the returned
                        # estimate accounts for them
                        bound += 300 * est[i, j]
                    ctx.count('affine_entries_asserted')
                else:
                    M = float(np.exp(np.sum(np.abs(B[i]) * (np.abs(x) + h[i, j]))))
                    a2 = 1.0 + float(np.sum(np.abs(A[i])) + np.sum(np.abs(B[i])))
                    floor = EPS * L * M * a2 / (1.0 if cancel_free else h[i, j])
                    bound = 300 * est[i, j] + 10 * floor
                    ctx.count('smooth_entries_asserted')
                r = err / bound if bound > 0 else (0.0 if err == 0 else math.inf)
                if r > worst:
                    worst, at = r, dict(i=i, j=j, observed=float(J[i, j]), expected=float(exact[i, j]), err=err, bound=bound,
                                        h=float(h[i, j]), est=float(est[i, j]))
        ctx.maximum('err/bound:%s:%s' % (kind, method), worst, dict(case=case, at=at))
        if worst > 1:
            ctx.reject('jacobian_entry', observed=at['observed'], expected=at['expected'], detail=dict(at, lam=L),
                       kind=kind, method=method, m=m, n=n, order=order, step_kind=case['step']['kind'])
            return
        if not (m == n and np.allclose(exact, exact.T)) and m * n > 1:
            ctx.nontrivial((m, n, 0, method, order, kind))
        if len(ctx.samples) < 2:
            ctx.sample(dict(case=case, J=J, exact=exact))
    elif kind == 'matrix':
        T = np.round(rng.normal(size=(m, n, k)), 3)
        v = np.round(rng.normal(size=k), 3)

        def f(z):
            rows = []
            for i in range(m):
                ui = np.sin(_dot(A[i], z, n))
                rows.append([sum(T[i, j, l] * z[j] for j in range(n)) + ui * v[l] for l in range(k)])
            return np.array(rows)
        ca = np.cos(A @ x)
        exact = T + ca[:, None, None] * A[:, :, None] * v[None, None, :]
        try:
            with np.errstate(all='ignore'):
                J, info = nd.Jacobian(f, **kw)(x.astype(np.float32) if f32_x else _as_given(x, case, ctx))
        except Exception as exc:
            ctx.reject('jacobian_raised', observed='%s: %s' % (type(exc).__name__, str(exc)[:150]),
                       kind=kind, m=m, n=n, k=k, method=method, length_one_output=False)
            return
        J = np.asarray(J)
        ctx.count('matrix_valued_asserted')
        if J.shape != (m, n, k):
            ctx.reject('jacobian_shape', observed=list(J.shape), expected=[m, n, k], kind=kind, method=method, m=m, n=n)
            return
        est = np.abs(np.asarray(info.error_estimate, dtype=float))
        hh = np.abs(np.asarray(info.final_step))
        if est.shape != J.shape or hh.shape != J.shape:
            ctx.count('matrix_info_shape_differs(noted; C02 decides)')
            est = np.broadcast_to(np.max(est), J.shape)
            hh = np.broadcast_to(np.min(hh), J.shape)
        L = lam()
        scale = float(np.max(np.abs(T)) * np.sum(np.abs(x)) + np.max(np.abs(v)) + 1.0)
        a2 = 1.0 + float(np.max(np.sum(np.abs(A), axis=1)))
        bound = 300 * est + 10 * EPS * L * scale * a2 / (1.0 if cancel_free else hh)
        err = np.abs(J - exact)
        r = float(np.max(err / bound))
        ctx.maximum('err/bound:matrix:%s' % method, r)
        if r > 1:
            ix = np.unravel_index(np.argmax(err / bound), J.shape)
            ctx.reject('jacobian_entry', observed=float(J[ix]), expected=float(exact[ix]),
                       detail=dict(index=list(ix), err=float(err[ix]), bound=float(bound[ix])), kind=kind, method=method,
                       m=m, n=n, order=order, step_kind=case['step']['kind'])
            return
        ctx.nontrivial((m, n, k, method, order, kind))
    else:
        # scalar f for Gradient / directionaldiff
        a = np.round(rng.uniform(0.3, 2.0, size=n), 3)
        p, q = 0, n - 1

        def f(z):
            z = np.ravel(z) if not hasattr(z, 'z1') else z
            s = 0.0
            for j in range(n):
                s = s + np.sin(a[j] * z[j])
            return s + 0.5 * z[p] * z[q]
        gexact = a * np.cos(a * x)
        gexact[p] += 0.5 * x[q]
        gexact[q] += 0.5 * x[p]
        if kind == 'gradient':
            xin = x.copy()
            if case['xmat'] and n % 2 == 0 and n > 2:
                xin = _laid_out(x.reshape(2, n // 2), case, ctx)
            try:
                with np.errstate(all='ignore'):
                    x_arg = _as_given(xin, case, ctx)
                    x_then = np.array(x_arg, copy=True) if isinstance(x_arg, np.ndarray) else None
                    g, ginfo = nd.Gradient(f, **kw)(x_arg)
                    if x_then is not None:
                        ctx.count('callers_array_unchanged_asserted')
                        if x_arg.tobytes() != x_then.tobytes():
                            ctx.reject('callers_array_modified', observed=x_arg, expected=x_then, kind=kind, method=method)
                            return
                    Jr, jinfo = nd.Jacobian(f, **kw)(x.copy())
            except Exception as exc:
                ctx.reject('gradient_raised', observed='%s: %s' % (type(exc).__name__, str(exc)[:150]), method=method, n=n)
                return
            g = np.asarray(g)
            ctx.count('gradient_asserted')
            exp_shape = () if n == 1 else (n,)
            if g.shape != exp_shape:
                ctx.reject('gradient_shape', observed=list(g.shape), expected=list(exp_shape), method=method, n=n,
                           x_was_matrix=bool(np.ndim(xin) > 1))
                return
            Jr = np.asarray(Jr)
            if Jr.shape != (1, n):
                ctx.reject('jacobian_shape', observed=list(Jr.shape), expected=[1, n], kind='scalar_f', method=method, m=1, n=n)
                return
            eg = np.abs(np.asarray(ginfo.error_estimate, dtype=float)).ravel()
            ej = np.abs(np.asarray(jinfo.error_estimate, dtype=float)).ravel()
            hg = np.abs(np.asarray(ginfo.final_step)).ravel()
            L = lam()
            floor = 10 * EPS * L * (n + 1.0) / (1.0 if cancel_free else hg)
            d = np.abs(g.ravel() - Jr.ravel())
            if np.any(d > 300 * (eg + ej) + floor):
                ctx.reject('gradient_differs_from_jacobian_row', observed=g.ravel(), expected=Jr.ravel(), method=method, n=n)
                return
            e = np.abs(g.ravel() - gexact)
            r = float(np.max(e / (300 * eg + floor)))
            ctx.maximum('err/bound:gradient:%s' % method, r)
            if r > 1:
                ctx.reject('gradient_entry', observed=g.ravel(), expected=gexact, detail=dict(est=eg, floor=floor),
                           method=method, n=n, order=order, step_kind=case['step']['kind'])
                return
            ctx.nontrivial((1, n, 0, method, order, 'gradient', bool(np.ndim(xin) > 1)))
        else:
            v = rng.normal(size=n) * 10.0 ** rng.uniform(-1, 1)
            if not np.any(v):
                v[0] = 1.0
            vclass = int(rng.integers(0, 10))
            if vclass in (0, 1, 2):
                # directions whose length is close to, but not exactly, one: a unit vector scaled by 1 +- 1e-7 .. 1e-4, or a
                # coordinate axis with small components in the other coordinates ("for any non-zero v": normalised all the same)
                if vclass == 2 and n > 1:
                    v = rng.normal(size=n) * 10.0 ** rng.uniform(-4, -2.3)
                    v[int(rng.integers(0, n))] = float(rng.choice([-1.0, 1.0]))
                else:
                    v = v / np.linalg.norm(v) * (1.0 + float(rng.choice([-1.0, 1.0])) * 10.0 ** rng.uniform(-7, -4))
                ctx.count('directions_of_nearly_unit_length')
            elif vclass == 3:
                v = v * 10.0 ** (float(rng.choice([-1.0, 1.0])) * rng.uniform(6, 12))       # very long / very short directions
                ctx.count('directions_of_extreme_length')
            xin, vin = x.copy(), v.copy()
            if case['xmat'] and n % 2 == 0 and n > 2:
                xin, vin = _laid_out(x.reshape(2, n // 2), case, ctx), _laid_out(v.reshape(2, n // 2), case, ctx, salt=1)

            def fm(z):
                return f(np.ravel(z))
            kw2 = dict(method=method, order=order, full_output=True)
            if case['step']['kind'] == 'scalar':
                kw2['step'] = case['step']['value']
            try:
                with np.errstate(all='ignore'):
                    dd, dinfo = nd.directionaldiff(fm, _as_given(xin, case, ctx), _as_given(vin, case, ctx, salt=3), **kw2)
                    g, ginfo = nd.Gradient(f, method=method, order=order, full_output=True)(x.copy())
            except Exception as exc:
                ctx.reject('directionaldiff_raised', observed='%s: %s' % (type(exc).__name__, str(exc)[:150]),
                           method=method, n=n)
                return
            ctx.count('directionaldiff_asserted')
            vhat = v / np.linalg.norm(v)
            ref = float(np.dot(np.ravel(g), vhat))
            edd = float(np.abs(np.asarray(dinfo.error_estimate, dtype=float)).ravel()[0])
            eg = np.abs(np.asarray(ginfo.error_estimate, dtype=float)).ravel()
            hd = float(np.abs(np.asarray(dinfo.final_step)).ravel()[0])
            L = lam()
            floor = 10 * EPS * L * (n + 1.0) / (1.0 if cancel_free else max(hd, 1e-300))
            bound = 300 * (edd + float(np.dot(np.abs(vhat), eg))) + floor
            dd = float(np.asarray(dd).ravel()[0])
            r = abs(dd - ref) / bound
            ctx.maximum('ddiff_vs_gradient/bound:%s' % method, r)
            if r > 1:
                ctx.reject('directionaldiff_differs_from_gradient_dot_unit_vector', observed=dd, expected=ref,
                           detail=dict(bound=bound, exact=float(np.dot(gexact, vhat))), method=method, n=n)
                return
            ex = float(np.dot(gexact, vhat))
            if abs(dd - ex) > 300 * edd + floor:
                ctx.reject('directionaldiff_value', observed=dd, expected=ex, detail=dict(est=edd, floor=floor),
                           method=method, n=n)
                return
            ctx.nontrivial((1, n, 0, method, order, 'ddiff', bool(np.ndim(xin) > 1)))


def classify(wit):
    f = wit.get('facts') or {}
    if wit.get('check') == 'jacobian_raised' and f.get('length_one_output') and f.get('n', 0) >= 2 \
            and 'axes don' in str(wit.get('observed')):
        return 'jacobian-length-one-output'
    if wit.get('check') == 'jacobian_raised' and f.get('kind') == 'matrix' and (f.get('m'), f.get('n'), f.get('k')) == (1, 1, 1) \
            and 'multi_index' in str(wit.get('observed')):
        return 'jacobian-1x1-matrix-valued'
    return None


TECHNIQUE = ('runtime monitoring: contracts on Jacobian / Gradient / directionaldiff returns (shape + closed-form Jacobian '
             'oracle), observers on _vstack / _expand_steps and on the applied weights')
LEVEL_TEXT = ('exploration: every observed result is decided by exact shape conditions and by closed-form Jacobians (affine '
              'maps exact to conditioning-scaled rounding; smooth maps in honesty form)')
LEVEL_NOTE = 'closed-form Jacobians evaluated in binary64 (error ~1e-15 relative, far below the tolerances)'
