"""C05 - the user function is only evaluated where the chosen method promises.

The only observer that can decide this is the boundary recorder around the user callable:
the test functions are defined on both sides of x, so a sign slip changes no returned number.
"""
import math

import numpy as np

from vf.boundary import Recorder

ID = 'C05'
NSHARDS = dict(quick=8, thorough=16)
BUDGET = dict(quick=3200, thorough=150000)
DIFF_CLASSES = ['DifferenceFunctions', 'JacobianDifferenceFunctions', 'HessdiagDifferenceFunctions',
                'HessianDifferenceFunctions']
ANCHORS = ['numdifftools.step_generators:BasicMaxStepGenerator.__call__']
MIN_COUNTERS = dict(quick={'calls_checked': 3000, 'evaluation_points_checked': 100000,
                           'asserted:forward_side': 500, 'asserted:backward_side': 500,
                           'asserted:central_pairs': 500, 'asserted:real_part_exact': 300,
                           'asserted:reach': 3000, 'asserted:support': 1500},
                    thorough={'calls_checked': 140000})
RULE = ('30 % of the objects reach (method, order) through their setters after having been called with another configuration. ' 
        'classes Derivative/Gradient/Jacobian/Hessdiag/Hessian x methods x n 1..6 x order 1..8 x dimension 1..5 x step '
        'source (default, Min/MaxStepGenerator with random options, scalar step) x x of both signs and magnitudes; every '
        'argument received by the wrapped callable is recorded. distinct non-trivial = (class, method, difference '
        'function actually used, dimension, step source); every difference function that the quantified grid can select '
        'must have been entered, else the run is inconclusive')
ASSUMPTIONS = ['central pairing is tested up to 2 ulp of |x|+|h| per coordinate ((x+h)-x != -((x-h)-x) in binary64)',
               'one-sided sign conditions are exact (x+h >= x holds exactly in binary64 for h > 0)',
               'reach: |z - x| <= w * max |generated step| * (1 + 4 eps) per coordinate, w = 2 for the real-step Hessian '
               'formulas (diagonal x + 2h e_i) and Hessdiag central2, 1 otherwise; real and imaginary parts of a complex offset are bounded separately',
               'mutation of arrays handed to f is counted, not judged (not part of the statement)']
EPS = 2.0 ** -52
CLASSES = ['Derivative', 'Gradient', 'Jacobian', 'Hessdiag', 'Hessian']
METHODS = dict(Derivative=['central', 'forward', 'backward', 'complex', 'multicomplex'],
               Gradient=['central', 'forward', 'backward', 'complex', 'multicomplex'],
               Jacobian=['central', 'forward', 'backward', 'complex', 'multicomplex'],
               Hessdiag=['central', 'central2', 'forward', 'backward', 'complex', 'multicomplex'],
               Hessian=['central', 'central2', 'forward', 'backward', 'complex', 'multicomplex'])
_steps_seen = []
_state = {}


def _rule_class(cls):
    from numdifftools import finite_difference as fd
    return dict(Derivative=fd.LogRule, Gradient=fd.LogJacobianRule, Jacobian=fd.LogJacobianRule,
                Hessdiag=fd.LogHessdiagRule, Hessian=fd.LogHessianRule)[cls]


def _grid(cls):
    for method in METHODS[cls]:
        for n in (range(1, 7) if cls == 'Derivative' else [1] if cls in ('Gradient', 'Jacobian') else [2]):
            if method == 'multicomplex' and n > 2:
                continue
            for order in range(1, 9):
                if cls == 'Hessian':
                    order = None
                yield method, n, order
                if cls == 'Hessian':
                    break


def reachable_diff_functions():
    import warnings
    out = set()
    for cls in CLASSES:
        rc = _rule_class(cls)
        for method, n, order in _grid(cls):
            try:
                with warnings.catch_warnings():
                    warnings.simplefilter('ignore')
                    r = rc(n=n, method=method, order=order if order is not None else 2)
                    fn = r.diff
                out.add(fn.__qualname__)
            except Exception:
                pass
    return out


def setup(ctx, mon):
    import numdifftools  # noqa
    from numdifftools import finite_difference as fd

    def on_yield(frame, val):
        _steps_seen.append(np.max(np.abs(val)))
    mon.watch('numdifftools.step_generators:BasicMaxStepGenerator.__call__', on_yield=on_yield)

    def mk(name):
        def on_start(frame):
            _state['diff'] = name
        return on_start
    reach = reachable_diff_functions()
    _state['reachable'] = reach
    for cname in DIFF_CLASSES:
        klass = getattr(fd, cname)
        for attr in vars(klass):
            if attr.startswith('_') and not attr.startswith('__') and isinstance(vars(klass)[attr], staticmethod):
                qn = '%s.%s' % (cname, attr)
                mon.watch('numdifftools.finite_difference:' + qn, on_start=mk(qn), lines=False)


def inconclusive_reasons(counters, monitor, tier):
    """Every difference function the quantified grid can select must have been entered."""
    out = []
    for qn in sorted(reachable_diff_functions()):
        if monitor.get('numdifftools.finite_difference:' + qn, {}).get('calls', 0) == 0:
            out.append('selectable difference function never entered: ' + qn)
    return out


def cases(rng, tier, shard, nshards):
    n_cases = BUDGET[tier] // nshards
    # stratified part: every (class, method, n, order) cell once per run (spread over shards)
    k = 0
    for cls in CLASSES:
        for method, n, order in _grid(cls):
            if k % nshards == shard:
                yield _case(rng, cls, method, n, order)
            k += 1
    for i in range(n_cases):
        cls = CLASSES[int(rng.integers(0, 5))]
        cells = list(_grid(cls))
        method, n, order = cells[int(rng.integers(0, len(cells)))]
        yield _case(rng, cls, method, n, order)


def _case(rng, cls, method, n, order):
    dim = int(rng.integers(1, 6))
    if cls == 'Derivative':
        shape = [] if rng.random() < 0.5 else [int(s) for s in rng.integers(1, 4, size=int(rng.integers(1, 3)))]
        size = int(np.prod(shape)) if shape else 1
    else:
        shape, size = [dim], dim
    x = (rng.choice([-1, 1], size=size) * 10.0 ** rng.uniform(-3, 2, size=size)).tolist()
    src = str(rng.choice(['default', 'scalar', 'min', 'max']))
    opts = {}
    if src == 'scalar':
        opts = dict(step=float(10.0 ** rng.uniform(-6, -1)))
    elif src in ('min', 'max'):
        if rng.random() < 0.7:
            opts['base_step'] = float(10.0 ** rng.uniform(-7, -0.5))
        if rng.random() < 0.5:
            opts['step_ratio'] = float(rng.uniform(1.2, 8.0))
        if rng.random() < 0.5:
            opts['num_steps'] = int(rng.integers(1, 20))
        if rng.random() < 0.3:
            opts['offset'] = float(rng.uniform(-4, 4))
        if rng.random() < 0.3:
            opts['num_extrap'] = int(rng.integers(0, 8))
        if rng.random() < 0.3:
            opts['use_exact_steps'] = bool(rng.random() < 0.5)
        if rng.random() < 0.2:
            opts['step_nom'] = float(rng.choice([1.0, 0.5, 3.0]))
        if rng.random() < 0.2:
            opts['scale'] = float(rng.uniform(1.5, 10))
    hist = None
    if rng.random() < 0.3 and cls != 'Hessian':
        # another (method, order) the object was used with before; for multicomplex n <= 2 is required both ways
        m0 = str(rng.choice(['central', 'forward', 'backward', 'complex'] + (['multicomplex'] if n <= 2 else [])))
        if method == 'multicomplex' and cls == 'Derivative' and n > 2:
            m0 = method
        hist = dict(method=m0 if rng.random() < 0.7 else method, order=int(rng.integers(1, 9)))
    return dict(cls=cls, method=method, n=n, order=order, shape=shape, x=x, src=src, opts=opts, history=hist,
                vector_f=bool(cls == 'Jacobian' and rng.random() < 0.6), fseed=int(rng.integers(0, 1000)))


def _is_flat(case):
    # (more often for the complex-step methods: the imaginary part of every value is then exactly zero)
    return case['fseed'] % 6 == 3 or (case['method'] in ('complex', 'multicomplex') and case['fseed'] % 3 == 0)


def make_fun(case):
    """Smooth, defined on both sides of every point, complex- and Bicomplex-capable."""
    cls = case['cls']
    c = 0.1 + 0.05 * (case['fseed'] % 7)
    flat = _is_flat(case)
    if flat:
        # a function that is even about the point of differentiation (or constant): every derivative-carrying part of its
        # value at the displaced points is exactly zero (the imaginary part of the complex step, the odd differences)
        x0 = np.array(case['x'], dtype=float).reshape(case['shape']) if case['shape'] else float(case['x'][0])
        const = case['fseed'] % 12 == 9
        if cls == 'Derivative':
            return (lambda x: 0.0 * x + 1.5) if const else (lambda x: (x - x0) * (x - x0) + 1.0)

        def flat_f(x):
            s = 1.0
            for k in range(len(case['x'])):
                s = s + (0.0 * x[k] if const else (x[k] - x0[k]) * (x[k] - x0[k]))
            return s
        if cls == 'Jacobian' and case['vector_f']:
            return lambda x: np.array([flat_f(x), 2.0 * flat_f(x), 0.5 * flat_f(x)])
        return flat_f
    if cls == 'Derivative':
        return lambda x: np.exp(c * x) + x * x
    dim = len(case['x'])

    def scalar_f(x):
        s = 0.0
        for k in range(dim):
            s = s + np.exp((c + 0.01 * k) * x[k])
        return s + x[0] * x[dim - 1]
    if cls == 'Jacobian' and case['vector_f']:
        def vec_f(x):
            return np.array([scalar_f(x), x[0] * 2.0 + x[dim - 1], np.exp(c * x[0])])
        return vec_f
    return scalar_f


def run_case(case, ctx):
    import numdifftools as nd
    cls, method, n, order = case['cls'], case['method'], case['n'], case['order']
    narrow = None
    if case['shape'] and case['fseed'] % 7 == 4 and not _is_flat(case):
        # the point in a narrow dtype, with values in the upper half of its range (2 * x does not fit the dtype): uint8, int8,
        # int16
        # (float16 / float32 points are not drawn: the library then works in that precision and "symmetric up to rounding" would have
        # to be judged in it)
        narrow = ['uint8', 'int8', 'int16'][(case['fseed'] // 7) % 3]
        prng = np.random.default_rng(case['fseed'])
        size_ = len(case['x'])
        sgn = prng.choice([-1.0, 1.0], size=size_)
        vals = {'uint8': prng.integers(130, 251, size=size_).astype(float),
                'int8': sgn * prng.integers(70, 121, size=size_),
                'int16': sgn * prng.integers(17000, 30001, size=size_),
                'float16': sgn * prng.integers(33000, 60001, size=size_).astype(np.float16).astype(float),
                'float32': np.array(case['x'], dtype=np.float32).astype(float)}[narrow]
        case = dict(case, x=[float(v) for v in vals])
        ctx.count('x_in_a_narrow_dtype:' + narrow)
    if narrow is None and case['fseed'] % 9 == 2 and not _is_flat(case):
        # coordinates that are exactly zero (0.0 or -0.0): a point like any other
        xz = list(case['x'])
        zrng = np.random.default_rng(case['fseed'] + 3)
        for k_ in range(len(xz)):
            if k_ == 0 or zrng.random() < 0.4:
                xz[k_] = 0.0 if zrng.random() < 0.7 else -0.0
        case = dict(case, x=xz)
        ctx.count('coordinates_exactly_zero')
    fun_ = make_fun(case)
    if cls == 'Derivative' and method in ('forward', 'backward') and narrow is None and case['fseed'] % 4 == 1 and not _is_flat(case):
        # a function that is not defined beyond a nearby edge on the promised side (a square root whose argument runs out): the
        # larger steps give nan there - and nothing is ever looked up on the other side instead
        sgn_ = 1.0 if method == 'forward' else -1.0
        x0_ = np.array(case['x'], dtype=float).reshape(case['shape']) if case['shape'] else float(case['x'][0])
        edge_ = (1.0 + np.abs(x0_)) * 10.0 ** (-3.0 + 3.0 * ((case['fseed'] // 4) % 7) / 6.0)
        base_ = fun_

        def fun_(z):
            with np.errstate(all='ignore'):
                return base_(z) + np.sqrt(edge_ - sgn_ * (z - x0_))
        ctx.count('functions_undefined_beyond_an_edge_on_the_promised_side')
    rec = Recorder(fun_)
    if _is_flat(case):
        ctx.count('functions_even_about_x_or_constant')
    x = np.array(case['x'], dtype=float).reshape(case['shape']) if case['shape'] else float(case['x'][0])
    if narrow:
        x = x.astype(narrow)
    kw = dict(method=method)
    if cls == 'Derivative':
        kw.update(n=n, order=order)
    elif cls != 'Hessian':
        kw.update(order=order)
    if case['src'] == 'scalar':
        kw['step'] = case['opts']['step']
    elif case['src'] == 'min':
        kw['step'] = nd.MinStepGenerator(**case['opts'])
    elif case['src'] == 'max':
        kw['step'] = nd.MaxStepGenerator(**case['opts'])
    x_call = x
    if cls == 'Gradient' and isinstance(x, np.ndarray) and x.ndim == 1 and x.size % 2 == 0 and x.size >= 4 and case['fseed'] % 2 == 0:
        # Gradient documents an n x m x0 as a point with n*m coordinates (row-major): the same point as a matrix, in C order,
        # Fortran order or as a strided view; the evaluation points are judged against x.ravel()
        mat = x.reshape(2, x.size // 2)
        lay = ['F', 'C', 'F', 'strided'][(case['fseed'] // 2) % 4]
        if lay == 'F':
            mat = np.asfortranarray(mat)
        elif lay == 'strided':
            big = np.zeros((2, x.size))
            big[:, ::2] = mat
            mat = big[:, ::2]
        x_call = mat
        ctx.count('gradient_matrix_x:' + lay)
    del _steps_seen[:]
    _state['diff'] = None
    x_keep = np.array(x, copy=True)
    if case['fseed'] % 5 == 1:
        # an earlier call on an argument of the same shape was aborted because the user function raised after a few evaluations:
        # whatever it left behind (module-level work arrays) must not move the evaluation points of the call that is judged
        left = [2 + case['fseed'] % 4]

        def failing(z, _f=make_fun(case)):
            left[0] -= 1
            if left[0] < 0:
                raise RuntimeError('user function failed')
            return _f(z)
        ctx.count('earlier_call_aborted_by_an_exception')
        try:
            with np.errstate(all='ignore'):
                getattr(nd, cls)(failing, **kw)(x_call)
        except Exception:
            pass
    try:
        with np.errstate(all='ignore'):
            hist = case.get('history')
            if hist and cls != 'Hessian':
                # the object reaches the configuration through its setters after having been used with another one
                kw0 = dict(kw)
                kw0['method'] = hist['method']
                if 'order' in kw0:
                    kw0['order'] = hist['order']
                obj = getattr(nd, cls)(rec, **kw0)
                try:
                    obj(x_call)
                except Exception:
                    pass
                if 'order' in kw0 and hist['order'] != order:
                    obj.order = order
                if hist['method'] != method:
                    obj.method = method
                del rec.calls[:]
                del _steps_seen[:]
                _state['diff'] = None
                ctx.count('configuration_reached_through_setters')
                obj(x_call)
            elif isinstance(x_call, np.ndarray) and x_call.dtype == np.float64 and case['fseed'] % 5 == 2:
                # the same object was called before with this very array when it held a far larger point: the caller updates
                # the array in place between the calls (the steps of the old point are of no use at the new one)
                obj = getattr(nd, cls)(rec, **kw)
                now = x_call.copy()
                x_call[...] = now * 1.0e4 + 3.0
                try:
                    obj(x_call)
                except Exception:
                    pass
                x_call[...] = now
                del rec.calls[:]
                del _steps_seen[:]
                _state['diff'] = None
                ctx.count('same_array_updated_in_place_between_calls')
                obj(x_call)
            else:
                getattr(nd, cls)(rec, **kw)(x_call)
    except ValueError as exc:
        # too few steps for the rule etc.: legitimate refusals; the calls made so far are still checked
        ctx.count('library_raised_ValueError(points seen so far still checked)')
    except Exception as exc:
        ctx.count('library_raised_%s(decided by other properties)' % type(exc).__name__)
    if isinstance(x, np.ndarray) and x.tobytes() != x_keep.tobytes():
        ctx.reject('callers_x_modified')
        return
    if not rec.calls:
        ctx.count('no_evaluation_recorded')
        return
    diffname = _state.get('diff')
    ctx.count('calls_checked')
    if rec.mutated():
        ctx.count('observed:array_handed_to_f_later_modified(noted, not judged)')
    xf = np.asarray(x, dtype=float)
    if cls != 'Derivative':
        xf = xf.ravel()
    hmax = max(_steps_seen) if _steps_seen else None
    # stencil width: the Hessian formulas of Ridout (2009) evaluate x + h e_i + h e_j, i.e. x + 2h e_i on the
    # diagonal, for every real-step method; Hessdiag 'central2' uses x +- 2h; everything else x +- h
    wide = (cls == 'Hessian' and method in ('central', 'central2', 'forward', 'backward')) or \
        (cls == 'Hessdiag' and method == 'central2')
    w = 2.0 if wide else 1.0
    ds = []
    for c in rec.calls:
        ctx.count('evaluation_points_checked')
        z1 = np.asarray(c.z1)
        if z1.shape != xf.shape:
            try:
                z1 = np.broadcast_to(z1, xf.shape) if z1.size == xf.size or z1.ndim == 0 else z1.reshape(xf.shape)
            except Exception:
                ctx.reject('argument_shape', observed=list(np.shape(c.z1)), expected=list(xf.shape))
                return
        d = z1 - xf
        d2 = np.asarray(c.z2) if c.z2 is not None else None
        ds.append((d, d2))
        dre, dim_ = np.real(d), np.imag(d)
        # ---- sides
        if method == 'forward':
            if np.any(dre < 0) or np.any(dim_ != 0) or d2 is not None:
                ctx.reject('forward_evaluates_below_x', observed=c.z1, expected=xf, diff=diffname, method=method, cls=cls)
                return
        elif method == 'backward':
            if np.any(dre > 0) or np.any(dim_ != 0) or d2 is not None:
                ctx.reject('backward_evaluates_above_x', observed=c.z1, expected=xf, diff=diffname, method=method, cls=cls)
                return
        elif method == 'multicomplex' or (method == 'complex' and cls in ('Derivative', 'Gradient', 'Jacobian')
                                          and n == 1 and (order or 2) < 4):
            if np.any(dre != 0):
                ctx.reject('real_part_of_argument_is_not_x', observed=c.z1, expected=xf, diff=diffname,
                           method=method, cls=cls)
                return
            if d2 is not None and method == 'multicomplex':
                if np.any(np.imag(d2) != 0):
                    ctx.reject('multicomplex_second_unit_has_imaginary_part', observed=c.z2, diff=diffname)
                    return
        # ---- reach
        if hmax is not None:
            mag = max(float(np.max(np.abs(dre))), float(np.max(np.abs(dim_))),
                      float(max(np.max(np.abs(np.real(d2))), np.max(np.abs(np.imag(d2))))) if d2 is not None else 0.0)
            lim = w * hmax * (1 + 4 * EPS) + 2 * float(np.max(np.spacing(np.abs(xf) + hmax)))
            if mag > lim:
                ctx.reject('evaluation_point_beyond_largest_step', observed=mag, expected=lim,
                           detail=dict(largest_generated_step=hmax, width=w), diff=diffname, method=method, cls=cls)
                return
        # ---- support
        if cls != 'Derivative':
            nz = np.abs(d) > 0
            if d2 is not None:
                nz = nz | (np.abs(d2) > 0)
            cnt = int(np.count_nonzero(nz))
            limit = 2 if cls == 'Hessian' else 1
            if cnt > limit:
                ctx.reject('more_coordinates_perturbed_than_allowed', observed=cnt, expected=limit,
                           detail=dict(z=c.z1), diff=diffname, method=method, cls=cls)
                return
    if method == 'forward':
        ctx.count('asserted:forward_side')
    elif method == 'backward':
        ctx.count('asserted:backward_side')
    elif method == 'multicomplex' or (method == 'complex' and n == 1 and (order or 2) < 4 and cls != 'Hessdiag'
                                      and cls != 'Hessian'):
        ctx.count('asserted:real_part_exact')
    if hmax is not None:
        ctx.count('asserted:reach')
    if cls != 'Derivative':
        ctx.count('asserted:support')
    # ---- central: pairs symmetric about x (plus x itself)
    if method in ('central', 'central2'):
        pts = [d for d, _ in ds if np.any(d != 0)]
        tol = 2 * np.spacing(np.abs(xf) + (hmax or 0.0) * w)
        used = [False] * len(pts)
        for i, d in enumerate(pts):
            if used[i]:
                continue
            for j in range(len(pts)):
                if j != i and not used[j] and np.all(np.abs(pts[j] + d) <= tol):
                    used[i] = used[j] = True
                    break
            if not used[i]:
                ctx.reject('central_point_without_mirror_image', observed=(xf + d), expected=(xf - d),
                           detail=dict(offset=d), diff=diffname, method=method, cls=cls)
                return
        ctx.count('asserted:central_pairs')
    dim = 1 if cls == 'Derivative' else len(case['x'])
    ctx.nontrivial((cls, method, diffname, dim, case['src']))
    ctx.count('diff_function_used:%s' % diffname)
    if len(ctx.samples) < 3:
        ctx.sample(dict(case=case, diff_function=diffname, n_evaluations=len(rec.calls),
                        first_offsets=[np.ravel(d)[:3] for d, _ in ds[:4]], largest_step=hmax))


def classify(wit):
    return None


TECHNIQUE = ('runtime monitoring: boundary recorder around the user callable (every argument recorded before the call) + '
             'sys.monitoring observer on the step generator yields and on the difference functions (reach)')
LEVEL_TEXT = ('exploration: every argument handed to the user function in every observed run is decided against the side / '
              'symmetry / exact-real-part / reach / support conditions of the chosen method')
LEVEL_NOTE = 'the recorder is the system boundary; steps are observed from the real generator, not recomputed'
