"""C11 - misuse fails loudly with ValueError instead of returning numbers."""
import itertools
import warnings

import numpy as np

ID = 'C11'
NSHARDS = dict(quick=4, thorough=8)
BUDGET = dict(quick=1200, thorough=12000)
ANCHORS = ['numdifftools.core:Derivative._raise_error_if_any_is_complex',
           'numdifftools.finite_difference:LogRule._vstack',
           'numdifftools.finite_difference:LogRule._multicomplex_middle_name',
           'numdifftools.finite_difference:LogRule._apply',
           'numdifftools.core:directionaldiff', 'numdifftools.fornberg:fd_weights_all',
           'numdifftools.fornberg:fd_derivative', 'numdifftools.limits:CStepGenerator._check_path']
MIN_COUNTERS = dict(quick={'misuse_calls': 1300, 'kind:complex_step_on_complex_input': 800,
                           'kind:not_one_value_per_element': 100, 'kind:multicomplex_n_above_2': 20,
                           'kind:too_few_steps': 100, 'kind:directionaldiff_size': 10, 'kind:fd_weights': 25,
                           'kind:fd_derivative': 100, 'kind:residue_order': 10, 'kind:limit_path': 5},
                    thorough={'misuse_calls': 4000})
EXHAUSTIVE = dict(quick=True, thorough=False)
EXHAUSTIVE_NOTE = 'the finite misuse matrix is enumerated completely in both tiers; thorough adds random shape/size draws'
RULE = ('A random part varies the magnitude (1e-28..1e8) of the complex part of f and of x. ' 
        'finite matrix: {Derivative, Gradient, Jacobian, Hessdiag, Hessian} x {complex, multicomplex} x {complex x, '
        'complex-valued f, both} x dimension 1..4 x (n, order) x full_output; multicomplex n in 3..6; num_steps below the rule length '
        'with check_num_steps=False; functions returning fewer or non-broadcastable values; directionaldiff size '
        'mismatch; fd_weights/fd_weights_all with n >= len(x); fd_derivative with len(fx) != len(x), n >= len(x) and '
        'grids shorter than the documented stencil 2*(n//2+m)+2; Residue with order <= pole_order; unknown Limit path. '
        'distinct non-trivial = (entry point, method, misuse kind, dimension, n, order)')
ASSUMPTIONS = ['"raises ValueError" accepts subclasses of ValueError; any returned value or any other exception type is a '
               'rejection', 'outputs larger than but broadcast-compatible with the input (scalar x -> vector) are '
               'computed elementwise by design and are deliberately not asserted']
CLASSES = ['Derivative', 'Gradient', 'Jacobian', 'Hessdiag', 'Hessian']


def setup(ctx, mon):
    import numdifftools  # noqa
    import numdifftools.fornberg  # noqa
    import numdifftools.limits  # noqa
    for a in ANCHORS:
        mon.watch(a, lines=False)


def matrix():
    # 1. complex-step methods on complex input / complex-valued functions
    for cls in CLASSES:
        for method in ('complex', 'multicomplex'):
            for what in ('complex_x', 'complex_f', 'both'):
                for dim in (1, 2, 3, 4):
                    if cls == 'Derivative':
                        cfgs = [(n, o) for n in ((1, 2) if method == 'multicomplex' else (1, 2, 3, 4, 5))
                                for o in (2, 4)]
                    elif cls == 'Hessian':
                        cfgs = [(2, None)]
                    elif cls == 'Hessdiag':
                        cfgs = [(2, 2), (2, 4)]
                    else:
                        cfgs = [(1, 2), (1, 4)]
                    for n, o in cfgs:
                        for scalar_x in ((True, False) if dim == 1 else (False,)):
                            for full in (False, True):
                                yield dict(kind='complex_step_on_complex_input', cls=cls, method=method, what=what,
                                           dim=dim, n=n, order=o, scalar_x=scalar_x, full_output=full)
    # 2. not one value per input element
    for method in ('central', 'forward', 'backward', 'complex', 'multicomplex'):
        for size in (2, 3, 5):
            for mode in ('sum_to_scalar', 'truncate', 'one_more', 'pair_for_triple', 'twice_as_many', 'columns'):
                for n in (0, 1, 2):
                    yield dict(kind='not_one_value_per_element', cls='Derivative', method=method, dim=size,
                               mode=mode, n=n, order=2)
    # 3. multicomplex n > 2
    for cls in ('Derivative',):
        for n in (3, 4, 5, 6):
            for order in (1, 2, 4):
                for x in (0.5, [0.5, 1.0]):
                    yield dict(kind='multicomplex_n_above_2', cls=cls, method='multicomplex', n=n, order=order, x=x,
                               dim=1 if np.isscalar(x) else 2)
    # ... reached on an object that has been used properly before: n (or the method) set through the public attributes after a
    # call with n0 <= 2 (or with another method)
    for n0 in (1, 2):
        for n in (3, 4, 5, 6, 7, 9, 10):
            for order in (2, 4):
                yield dict(kind='multicomplex_n_above_2', cls='Derivative', method='multicomplex', n=n, order=order, x=0.5, dim=1,
                           reached_from=dict(n=n0, method='multicomplex'))
    for m0 in ('central', 'complex', 'forward'):
        for n in (3, 4, 5, 6):
            yield dict(kind='multicomplex_n_above_2', cls='Derivative', method='multicomplex', n=n, order=2, x=[0.5, 1.0], dim=2,
                       reached_from=dict(n=n, method=m0))
    # ... and asked of Gradient / Jacobian, which accept n like Derivative does (at construction, or set on a used object)
    for cls in ('Gradient', 'Jacobian'):
        for n in (3, 4, 5, 6):
            for via in ('constructor', 'setter'):
                yield dict(kind='multicomplex_n_above_2', cls=cls, method='multicomplex', n=n, order=2, x=[0.5, 1.0], dim=2, via=via)
    # 4. fewer steps than the rule needs
    for method in ('central', 'forward', 'backward', 'complex'):
        for n in (1, 2, 3, 4):
            for order in (2, 4, 6):
                for gen in ('min', 'max'):
                    yield dict(kind='too_few_steps', cls='Derivative', method=method, n=n, order=order, gen=gen, dim=1)
                    # ... and with more than one element / variable (the number of steps is not the number of step values)
                    if n == 1:
                        for cls in ('Derivative', 'Gradient', 'Jacobian'):
                            yield dict(kind='too_few_steps', cls=cls, method=method, n=n, order=order, gen=gen, dim=3)
                    if n == 2:
                        yield dict(kind='too_few_steps', cls='Hessdiag', method=method, n=n, order=order, gen=gen, dim=3)
    # 5. directionaldiff
    for nx, nv in ((2, 3), (3, 2), (1, 2), (4, 1), (6, 5)):
        for method in ('central', 'complex', 'forward'):
            yield dict(kind='directionaldiff_size', nx=nx, nv=nv, method=method, dim=nx)
    # 6. fd_weights / fd_weights_all / fd_derivative
    for m_ in (1, 2, 3, 5, 8):
        for extra in (0, 1, 3):
            for fn in ('fd_weights', 'fd_weights_all'):
                yield dict(kind='fd_weights', fn=fn, m=m_, n=m_ + extra, dim=m_)
    for n in (1, 2, 3, 4, 5, 6):
        for m_ in (1, 2, 3):
            mm = n // 2 + m_
            for length in sorted({n, n + 1, mm, 2 * mm, 2 * mm + 1} - {0}):
                if length < 2 * mm + 2:
                    yield dict(kind='fd_derivative', sub='grid_shorter_than_stencil', n=n, m=m_, length=length, dim=length)
            yield dict(kind='fd_derivative', sub='len_fx_differs', n=n, m=m_, length=2 * mm + 6, dim=2 * mm + 6)
    for length in (1, 2, 3, 5):
        for extra in (0, 1, 4):
            yield dict(kind='fd_derivative', sub='n_not_below_len', n=length + extra, m=1, length=length, dim=length)
    # a stencil option m that leaves the interior stencil 2 * (n // 2 + m) + 1 with no more points than the derivative order
    # (m = 0 with odd n, negative m), on a grid that is long enough
    for n in (1, 2, 3, 4, 5, 6, 7):
        for m_ in (0, -1, -2):
            if 0 < 2 * (n // 2 + m_) + 1 <= n:
                for length in (12, 25):
                    yield dict(kind='fd_derivative', sub='stencil_has_too_few_points', n=n, m=m_, length=length, dim=length)
    # 7. Residue
    for pole in (1, 2, 3, 4):
        for order in range(0, pole + 1):
            yield dict(kind='residue_order', pole_order=pole, order=order, dim=1)
    # 8. Limit path
    for path in ('zigzag', 'Radial ', '', 'line', 'spiralx'):
        for cls in ('Limit', 'Residue', 'CStepGenerator'):
            yield dict(kind='limit_path', path=path, cls=cls, dim=1)


def cases(rng, tier, shard, nshards):
    for k, c in enumerate(matrix()):
        if k % nshards == shard:
            yield c
    for i in range(BUDGET[tier] // nshards):
        u = rng.random()
        if u < 0.5:
            cls = CLASSES[int(rng.integers(0, 5))]
            method = str(rng.choice(['complex', 'multicomplex']))
            dim = int(rng.integers(1, 7))
            n = 2 if cls in ('Hessdiag', 'Hessian') else (1 if cls != 'Derivative' else int(rng.integers(1, 3)))
            yield dict(kind='complex_step_on_complex_input', cls=cls, method=method, dim=dim, n=n,
                       what=str(rng.choice(['complex_x', 'complex_f', 'both'])),
                       order=None if cls == 'Hessian' else int(rng.choice([2, 4])), scalar_x=False,
                       seed=int(rng.integers(0, 2 ** 31)))
        elif u < 0.8:
            yield dict(kind='not_one_value_per_element', cls='Derivative', dim=int(rng.integers(2, 9)),
                       method=str(rng.choice(['central', 'forward', 'backward', 'complex', 'multicomplex'])),
                       mode=str(rng.choice(['sum_to_scalar', 'truncate', 'one_more', 'pair_for_triple'])),
                       n=int(rng.integers(0, 3)), order=int(rng.choice([2, 4])))
        else:
            n = int(rng.integers(1, 7))
            m_ = int(rng.integers(1, 4))
            mm = n // 2 + m_
            yield dict(kind='fd_derivative', sub='grid_shorter_than_stencil', n=n, m=m_,
                       length=int(rng.integers(max(n, 1), 2 * mm + 2)), dim=0)


def expect_value_error(ctx, case, thunk, **facts):
    ctx.count('misuse_calls')
    ctx.count('kind:' + case['kind'])
    try:
        with warnings.catch_warnings():
            warnings.simplefilter('ignore')
            with np.errstate(all='ignore'):
                out = thunk()
    except ValueError:
        ctx.count('raised_ValueError')
        return True
    except Exception as exc:
        ctx.reject('raised_other_exception_type', observed='%s: %s' % (type(exc).__name__, str(exc)[:150]),
                   expected='ValueError', exc_type=type(exc).__name__, kind=case['kind'], **facts)
        return False
    try:
        shown = np.asarray(out[0] if isinstance(out, tuple) else out)
        shown = shown.ravel()[:4] if shown.dtype != object else repr(out)[:120]
    except Exception:
        shown = repr(out)[:120]
    ctx.reject('numeric_result_returned_for_misuse', observed=shown, expected='ValueError', kind=case['kind'], **facts)
    return False


def run_case(case, ctx):
    import numdifftools as nd
    from numdifftools import fornberg
    from numdifftools.limits import Limit, Residue, CStepGenerator
    kind = case['kind']
    ok = False
    if kind == 'complex_step_on_complex_input':
        cls, method, what, dim = case['cls'], case['method'], case['what'], case['dim']
        rng = np.random.default_rng(case.get('seed', 1))
        x = rng.uniform(0.5, 1.5, size=dim)
        if what in ('complex_x', 'both'):
            x = x + 1j * rng.uniform(0.05, 0.3, size=dim) * (rng.random(dim) < 0.6)
            if not np.any(x.imag):
                x[0] += 0.1j
        cf = (1.0 + 0.5j) if what in ('complex_f', 'both') else 1.0
        if 'seed' in case and rng.random() < 0.5:
            # magnitude classes: a complex-valued function (or the imaginary part of x) that is tiny or huge is complex all the same
            mag = float(10.0 ** rng.uniform(-28, 8))
            ctx.count('complex_misuse_with_scaled_magnitude')
            if what in ('complex_f', 'both'):
                cf = cf * mag
            if what in ('complex_x', 'both'):
                x = x.real + 1j * x.imag * min(mag, 1.0)
        if cls == 'Derivative':
            f = lambda t: cf * np.exp(0.3 * t) + t * t
        elif cls == 'Jacobian':
            f = lambda t: cf * np.array([np.exp(0.3 * t[0]) + t[dim - 1] * t[0], t[0] * 2.0 + t[dim - 1]])
        else:
            def f(t):
                s = 0.0
                for k in range(dim):
                    s = s + np.exp(0.3 * t[k]) * (k + 1)
                return cf * (s + t[0] * t[dim - 1])
        kw = dict(method=method, full_output=bool(case.get('full_output')))
        if cls == 'Derivative':
            kw.update(n=case['n'], order=case['order'])
        elif cls != 'Hessian':
            kw.update(order=case['order'])
        xx = complex(x[0]) if (case.get('scalar_x') and dim == 1) else x
        if np.iscomplexobj(xx) and not np.any(np.imag(xx)):
            xx = np.real(xx)
        if 'seed' in case and case['seed'] % 4 == 3:
            # the complex data in single precision (complex64): complex all the same
            ctx.count('complex_misuse_in_complex64')
            if np.iscomplexobj(xx):
                xx = np.complex64(xx) if np.ndim(xx) == 0 else np.asarray(xx).astype(np.complex64)
            if what in ('complex_f', 'both'):
                f_dbl = f
                f = lambda t: np.asarray(f_dbl(t)).astype(np.complex64)[()]
        def misuse():
            if 'seed' in case and case['seed'] % 5 < 2:
                # the object was built (and used) with a real-step method and reaches the complex-step method through the setter
                ctx.count('complex_step_method_reached_through_the_setter')
                obj = getattr(nd, cls)(f, **dict(kw, method=['central', 'forward'][case['seed'] % 2]))
                if case['seed'] % 5 == 0:
                    try:
                        obj(np.real(xx))
                    except Exception:
                        pass
                obj.method = method
                return obj(xx)
            return getattr(nd, cls)(f, **kw)(xx)
        ok = expect_value_error(ctx, case, misuse, cls=cls, method=method, what=what)
    elif kind == 'not_one_value_per_element':
        size, mode = case['dim'], case['mode']
        x = np.linspace(0.5, 1.5, size)

        def pick(v):
            # works for ndarray, complex arrays and Bicomplex alike
            if mode == 'sum_to_scalar':
                s = v[0]
                for k in range(1, size):
                    s = s + v[k]
                return s
            if mode == 'truncate':
                return v[:size - 1]
            if mode == 'pair_for_triple':
                return v[:max(size - 2, 1)] if size > 2 else v[:1]
            return None
        if mode in ('twice_as_many', 'columns'):
            # a whole multiple of the number of elements, in a layout that does not line up with x: 2k values in a row, or k rows of
            # m != k values
            if case['method'] == 'multicomplex':
                ctx.count('skipped_one_more_for_multicomplex')
                return
            if mode == 'twice_as_many':
                f = lambda t: np.concatenate([np.exp(np.asarray(t)), np.cos(np.asarray(t))])
            else:
                mcols = 3 if size == 2 else 2
                f = lambda t: np.column_stack([np.exp(np.asarray(t)), np.cos(np.asarray(t)), np.sin(np.asarray(t))][:mcols])
        elif mode == 'one_more':
            if case['method'] == 'multicomplex':
                ctx.count('skipped_one_more_for_multicomplex')
                return
            f = lambda t: np.concatenate([np.exp(np.asarray(t)), np.exp(np.asarray(t))[:1]])
        else:
            f = lambda t: pick(np.exp(t) if not hasattr(t, 'z1') else t.exp())
        ok = expect_value_error(ctx, case, lambda: nd.Derivative(f, method=case['method'], n=case['n'],
                                                                 order=case['order'])(x),
                                method=case['method'], mode=mode)
    elif kind == 'multicomplex_n_above_2' and case.get('cls') in ('Gradient', 'Jacobian'):
        fmv = (lambda t: np.exp(t[0]) * t[1]) if case['cls'] == 'Gradient' else (lambda t: np.array([np.exp(t[0]) * t[1], t[0] + t[1]]))

        def mv():
            if case['via'] == 'constructor':
                return getattr(nd, case['cls'])(fmv, method='multicomplex', n=case['n'], order=case['order'])(np.array(case['x']))
            o = getattr(nd, case['cls'])(fmv, method='multicomplex', order=case['order'])
            o(np.array(case['x']))
            o.n = case['n']
            return o(np.array(case['x']))
        ok = expect_value_error(ctx, case, mv, n=case['n'], cls=case['cls'], via=case['via'])
    elif kind == 'multicomplex_n_above_2' and case.get('reached_from'):
        r0 = case['reached_from']

        def via_setters():
            d = nd.Derivative(np.exp, method=r0['method'], n=r0['n'], order=case['order'])
            d(case['x'])
            if r0['n'] != case['n']:
                d.n = case['n']
            if r0['method'] != 'multicomplex':
                d.method = 'multicomplex'
            return d(case['x'])
        ctx.count('misuse_reached_through_setters_on_a_used_object')
        ok = expect_value_error(ctx, case, via_setters, n=case['n'], reached_from=r0)
    elif kind == 'multicomplex_n_above_2':
        ok = expect_value_error(ctx, case, lambda: nd.Derivative(np.exp, method='multicomplex', n=case['n'],
                                                                 order=case['order'])(case['x']), n=case['n'])
    elif kind == 'too_few_steps':
        from numdifftools.finite_difference import LogRule
        method, n, order = case['method'], case['n'], case['order']
        need = int(np.size(LogRule(n=n, method=method, order=order).rule(2.0)))
        if need < 2:
            ctx.count('skipped_rule_of_length_one')
            return
        G = nd.MinStepGenerator if case['gen'] == 'min' else nd.MaxStepGenerator
        cls, dim = case.get('cls', 'Derivative'), case.get('dim', 1)
        for k in range(1, need):
            gen = G(base_step=0.1, step_ratio=2.0, num_steps=k, check_num_steps=False)
            if dim == 1:
                thunk = lambda: nd.Derivative(np.exp, step=gen, method=method, n=n, order=order)(1.0)
            elif cls == 'Derivative':
                thunk = lambda: nd.Derivative(np.exp, step=gen, method=method, n=n, order=order)(np.array([0.5, 1.0, 1.5]))
            elif cls == 'Jacobian':
                thunk = lambda: nd.Jacobian(lambda t: np.array([np.exp(t[0]) * t[1], t[2] * t[2]]), step=gen, method=method,
                                            order=order)(np.array([0.5, 1.0, 1.5]))
            else:
                thunk = lambda: getattr(nd, cls)(lambda t: np.exp(t[0]) * t[1] + t[2] * t[2] * t[0], step=gen, method=method,
                                                 order=order)(np.array([0.5, 1.0, 1.5]))
            ok = expect_value_error(ctx, case, thunk, steps=k, rule_length=need, cls=cls, dim=dim)
            if not ok:
                return
    elif kind == 'directionaldiff_size':
        nx, nv = case['nx'], case['nv']
        f = lambda t: np.sum(np.asarray(t) ** 2)
        ok = expect_value_error(ctx, case, lambda: nd.directionaldiff(f, np.ones(nx), np.ones(nv),
                                                                      method=case['method']), nx=nx, nv=nv)
    elif kind == 'fd_weights':
        x = np.linspace(-1, 1, case['m']) if case['m'] > 1 else np.array([0.3])
        fn = getattr(fornberg, case['fn'])
        ok = expect_value_error(ctx, case, lambda: fn(x, 0.1, case['n']), fn=case['fn'], m=case['m'], n=case['n'])
    elif kind == 'fd_derivative':
        n, m_, length = case['n'], case['m'], case['length']
        x = np.linspace(0, 1, length)
        fx = np.exp(x)
        if case['sub'] == 'len_fx_differs':
            for delta in (-1, 1, -3):
                ok = expect_value_error(ctx, case, lambda: fornberg.fd_derivative(fx[:length + delta] if delta < 0
                                                                                  else np.append(fx, 1.0), x, n, m_),
                                        sub=case['sub'], n=n, m=m_, length=length)
                if not ok:
                    return
        else:
            ok = expect_value_error(ctx, case, lambda: fornberg.fd_derivative(fx, x, n, m_),
                                    sub=case['sub'], n=n, m=m_, length=length, stencil=2 * (n // 2 + m_) + 2)
    elif kind == 'residue_order':
        ok = expect_value_error(ctx, case, lambda: Residue(lambda z: 1.0 / np.sin(z) ** case['pole_order'],
                                                           pole_order=case['pole_order'], order=case['order'])(0.0),
                                pole_order=case['pole_order'], order=case['order'])
    elif kind == 'limit_path':
        path = case['path']
        if case['cls'] == 'Limit':
            th = lambda: Limit(lambda z: np.sin(z) / z, path=path)(0.0)
        elif case['cls'] == 'Residue':
            th = lambda: Residue(lambda z: 1.0 / np.sin(z), path=path)(0.0)
        else:
            th = lambda: list(CStepGenerator(path=path)(0.0))
        ok = expect_value_error(ctx, case, th, path=path)
    if ok:
        ctx.nontrivial((kind, case.get('cls') or case.get('fn') or case.get('sub'), case.get('method'),
                        case.get('what') or case.get('mode'), case.get('dim'), case.get('n'), case.get('order')))
        if len(ctx.samples) < 4:
            ctx.sample(dict(case=case, outcome='ValueError'))


def classify(wit):
    f = wit.get('facts') or {}
    chk = wit.get('check')
    if f.get('kind') == 'complex_step_on_complex_input' and f.get('cls') in ('Gradient', 'Jacobian') \
            and chk == 'numeric_result_returned_for_misuse':
        return 'jacobian-gradient-skip-complex-check'
    if f.get('kind') == 'fd_derivative' and f.get('sub') == 'grid_shorter_than_stencil':
        return 'fd-derivative-short-grid-not-rejected'
    return None


TECHNIQUE = 'runtime monitoring: outcome contracts (exception type vs returned value) on every misuse call of a finite matrix'
LEVEL_TEXT = ('exploration with a completely enumerated finite misuse matrix: each misused call must end in ValueError; a '
              'returned value or another exception type is a rejection')
LEVEL_NOTE = 'the matrix is finite and enumerated; random shape/size draws are added in the thorough tier'
