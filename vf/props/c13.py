"""C13 - dea3 recovers the limit of a geometric transient and never produces garbage.

Monitors: (K) direct calls of the real `numdifftools.extrapolation.dea3`, (R) a
sys.monitoring observer on dea3's code object that sees *every* internal call made by
Derivative / Limit workloads (the function is imported by name into three modules).
Oracle: the three-term Shanks value computed in exact rational arithmetic from the float
inputs.
"""
from fractions import Fraction
import itertools
import math

import numpy as np

from vf.oracle.exact import F, shanks3, to_float, EPS

ID = 'C13'
NSHARDS = dict(quick=8, thorough=16)
BUDGET = dict(quick=60000, thorough=3000000)
ANCHORS = ['numdifftools.extrapolation:dea3']
MIN_COUNTERS = dict(quick={'shanks_asserted': 5000, 'honesty_asserted': 5000, 'branch:converged': 100,
                           'branch:extrapolated': 1000, 'internal_calls_observed': 50,
                           'array_equiv_asserted': 50},
                    thorough={'shanks_asserted': 100000, 'honesty_asserted': 100000,
                              'internal_calls_observed': 500})
RULE = ('Integer-valued triples handed over as Python ints, numpy integers, integer arrays, lists, plain floats or a mix. ' 
        'cases: geometric triples fl(L + a q^k) with L,a log-uniform over 30 decades, q in (-50,50) '
        'minus neighbourhoods of 0 and 1; all 14^3 triples of a special-float table; random triples; '
        'arrays of random shape (elementwise and symmetric=True); internal calls observed inside '
        'Derivative/Limit runs. non-trivial+distinct = (decade of a/L, q bucket, branch taken) for '
        'geometric triples clearly outside the documented guards, where the exact Shanks value was '
        'asserted')
ASSUMPTIONS = ['inputs of moderate magnitude means |e| <= 1e150',
               'outside the guard is decided in exact arithmetic with a 20 % margin around the '
               '1e-4 threshold and a factor-2 margin around the eps tolerances; cases inside the '
               'margin only get the totality checks',
               'rounding bound C*eps*(|e1|+|corr|+|S|+corr^2(1/|d1|+1/|d2|)) with C=8 (a-priori 4; worst observed 0.5)']

SPECIAL = [0.0, -0.0, 1.0, -1.0, 1.0 + EPS, 1.0 - EPS / 2, 2.0, 0.5, 1e-300, -1e-300, 1e150, -1e150,
           3.0, 1e-8]
C_ROUND = 8.0
_dea3 = None
_nd = None


def _lib():
    global _dea3, _nd
    if _dea3 is None:
        import numdifftools as nd
        from numdifftools.extrapolation import dea3
        _dea3, _nd = dea3, nd
    return _dea3, _nd


# ------------------------------------------------------------------------------ oracle
def check_triple(ctx, e, result, abserr, L=None, tag='direct', nontrivial_key=None):
    """e: three python floats; result, abserr: python floats from the library."""
    e0, e1, e2 = e
    finite_in = all(math.isfinite(v) and abs(v) <= 1e150 for v in e)
    if not finite_in:
        ctx.count('skipped_nonfinite_or_huge_input')
        return
    ctx.count('totality_asserted')
    if not (math.isfinite(result) and math.isfinite(abserr)):
        ctx.reject('nonfinite_output', observed=[result, abserr], detail=dict(e=list(e), tag=tag))
        return
    if abserr < 0:
        ctx.reject('negative_abserr', observed=[result, abserr], detail=dict(e=list(e), tag=tag))
        return
    sh = shanks3(e0, e1, e2)
    maxe = max(abs(e0), abs(e1), abs(e2))
    if sh is None:
        ctx.count('branch:degenerate_exact')
        return
    S, corr, d1, d2, sss = sh
    tol1 = Fraction(max(abs(e1), abs(e0))) * Fraction(EPS)
    tol2 = Fraction(max(abs(e2), abs(e1))) * Fraction(EPS)
    inv = 1 / abs(d1) + 1 / abs(d2)
    sss_err = 4 * Fraction(EPS) * inv + Fraction(2.3e-308)
    crit = abs(sss) * abs(F(e1))
    thr = Fraction(1, 10000)
    clearly_out = (abs(d1) > 2 * tol1 and abs(d2) > 2 * tol2 and
                   crit - sss_err * abs(F(e1)) > thr * Fraction(12, 10))
    clearly_in = (abs(d1) <= tol1 / 2 or abs(d2) <= tol2 / 2 or
                  crit + sss_err * abs(F(e1)) < thr * Fraction(8, 10))
    if not clearly_out:
        ctx.count('branch:converged' if clearly_in else 'skipped_guard_margin')
        if clearly_in and L is not None:
            # inside the guard the property only promises a finite value and a valid estimate
            pass
        return
    ctx.count('branch:extrapolated')
    fcorr, fS = to_float(abs(corr)), to_float(abs(S))
    bound = C_ROUND * EPS * (abs(e1) + fcorr + fS + fcorr * fcorr * to_float(inv))
    err = to_float(abs(F(result) - S))
    ctx.count('shanks_asserted')
    if bound > 0 and math.isfinite(bound):
        ctx.maximum('shanks_err/bound(C=%g)' % C_ROUND, err / bound, dict(e=list(e)))
    if not err <= bound:
        ctx.reject('shanks_value', observed=result, expected=to_float(S),
                   detail=dict(e=list(e), err=err, bound=bound, tag=tag))
        return
    if L is not None:
        # honesty: true error not larger than abserr beyond rounding.  The float terms are
        # L + a q^k rounded to nearest, so the conditioning of the Shanks formula w.r.t. one
        # ulp in each input is part of "rounding"; it is measured by actually perturbing the
        # inputs (the linearised estimate is invalid when differences are a few ulps).
        maxdev = Fraction(0)
        for sg in itertools.product((-1, 1), repeat=3):
            pe = [F(v) + s_ * F(math.ulp(v)) for v, s_ in zip(e, sg)]
            psh = shanks3(*pe)
            if psh is None:
                maxdev = None
                break
            maxdev = max(maxdev, abs(psh[0] - S))
        if maxdev is None or to_float(maxdev) > 1e-3 * max(to_float(abs(corr)), 1e-300):
            ctx.count('honesty_skipped_ill_conditioned(differences of a few ulps)')
        else:
            true_err = to_float(abs(F(result) - F(L)))
            ctx.count('honesty_asserted')
            slack = bound + 2 * to_float(maxdev)
            if slack > 0 and math.isfinite(slack) and true_err > abserr:
                ctx.maximum('(true_err-abserr)/rounding_slack', (true_err - abserr) / slack,
                            dict(e=list(e), L=L))
            if not true_err <= abserr + slack:
                ctx.reject('abserr_smaller_than_true_error', observed=[result, abserr], expected=L,
                           detail=dict(e=list(e), true_err=true_err, slack=slack, tag=tag))
                return
    if nontrivial_key is not None:
        ctx.nontrivial(nontrivial_key + ('extrapolated',))


def call_scalar(ctx, e, **kw):
    dea3, _ = _lib()
    # the three terms as numpy scalars, as builtin floats or as 0-d arrays: the same numbers
    form = int(sum(float(v).hex().count('1') for v in e)) % 3
    a0, a1, a2 = ((np.float64(v) for v in e) if form == 0 else (float(v) for v in e) if form == 1 else (np.array(float(v)) for v in e))
    ctx.count('scalar_terms_given_as:' + ['np.float64', 'float', '0-d array'][form])
    try:
        res, err = dea3(a0, a1, a2, **kw)
    except Exception as exc:
        ctx.reject('raised', observed=repr(exc), detail=dict(e=list(e)))
        return None
    return res, err


# ------------------------------------------------------------------------------ monitor
_pending = {}


def _on_start(frame):
    loc = frame.f_locals
    snap = []
    for name in ('v_0', 'v_1', 'v_2'):
        v = loc.get(name)
        snap.append(np.array(v, copy=True) if isinstance(v, np.ndarray) else v)
    _pending[id(frame)] = snap


def _make_on_return(ctx):
    rng = np.random.default_rng(12345 + ctx.shard)

    def on_return(frame, retval):
        snap = _pending.pop(id(frame), None)
        loc = frame.f_locals
        args = [loc.get('v_0'), loc.get('v_1'), loc.get('v_2')]
        if snap is not None:
            for before, after in zip(snap, args):
                if isinstance(after, np.ndarray):
                    if not (before.shape == after.shape and
                            before.tobytes() == after.tobytes()):
                        ctx.reject('input_modified', detail=dict(tag='internal/any call'))
        if not _state.get('internal'):
            return
        ctx.count('internal_calls_observed')
        result, abserr = retval
        result, abserr = np.asarray(result), np.asarray(abserr)
        if np.iscomplexobj(result) or any(np.iscomplexobj(a) for a in args):
            ctx.count('internal_complex_calls(not elementwise-checked)')
            if np.any(np.asarray(abserr.real) < 0):
                ctx.reject('negative_abserr', detail=dict(tag='internal complex'))
            return
        a0, a1, a2 = (np.asarray(a, dtype=float) for a in args)
        if loc.get('symmetric'):
            return
        try:
            a0, a1, a2 = np.broadcast_arrays(np.atleast_1d(a0), np.atleast_1d(a1), np.atleast_1d(a2))
        except ValueError:
            return
        if result.shape != a0.shape:
            ctx.reject('shape', observed=list(result.shape), expected=list(a0.shape),
                       detail=dict(tag='internal'))
            return
        flat = a0.size
        for idx in rng.choice(flat, size=min(3, flat), replace=False):
            e = (float(a0.flat[idx]), float(a1.flat[idx]), float(a2.flat[idx]))
            check_triple(ctx, e, float(result.flat[idx]), float(abserr.flat[idx]), tag='internal')
            ctx.count('internal_elements_checked')
    return on_return


_state = {}


def setup(ctx, mon):
    _lib()
    mon.watch('numdifftools.extrapolation:dea3', on_start=_on_start, on_return=_make_on_return(ctx))


# ------------------------------------------------------------------------------ workload
FUNS = {'exp': np.exp, 'sin': np.sin, 'tanh': np.tanh, 'inv': lambda x: 1.0 / (1.0 + x * x),
        'log1p': np.log1p}


def _loguniform(rng, lo, hi):
    return float(10.0 ** rng.uniform(lo, hi))


def _draw_q(rng):
    while True:
        u = rng.random()
        if u < 0.4:
            q = rng.uniform(-0.98, 0.98)
        elif u < 0.6:
            q = rng.uniform(-50, 50)
        elif u < 0.8:
            q = 1.0 + rng.choice([-1, 1]) * _loguniform(rng, -3, -0.5)
        else:
            q = rng.choice([-1, 1]) * _loguniform(rng, -2, 1.69)
        if abs(q) > 1e-3 and abs(q - 1.0) > 1e-3 and abs(q) < 50:
            return float(q)


def cases(rng, tier, shard, nshards):
    n = BUDGET[tier] // nshards
    if shard == 0:
        for t in itertools.product(range(len(SPECIAL)), repeat=3):
            yield dict(kind='special', idx=list(t))
    for i in range(n):
        u = rng.random()
        if u < 0.70:
            L = 0.0 if rng.random() < 0.03 else float(rng.choice([-1, 1])) * _loguniform(rng, -15, 15)
            a = float(rng.choice([-1, 1])) * _loguniform(rng, -15, 15)
            yield dict(kind='geom', L=L, a=a, q=_draw_q(rng), k0=int(rng.integers(0, 4)))
        elif u < 0.85:
            kind = rng.integers(0, 3)
            if kind == 0:
                e = [float(rng.choice([-1, 1])) * _loguniform(rng, -20, 20) for _ in range(3)]
            elif kind == 1:
                base = float(rng.choice([-1, 1])) * _loguniform(rng, -5, 5)
                e = [float(base * (1 + int(rng.integers(-3, 4)) * EPS)) for _ in range(3)]
            else:
                e = [float(np.round(rng.normal(), 1)) for _ in range(3)]
            yield dict(kind='triple', e=e)
        elif u < 0.89:
            # integer-valued geometric triples handed over in other legal types (Python ints, numpy integers, integer arrays,
            # lists, plain Python floats, a mix)
            q = int(rng.choice([-4, -3, -2, 2, 3, 4])) if rng.random() < 0.6 else 0
            L, m = int(rng.integers(-20, 21)), int(rng.integers(1, 9)) * int(rng.choice([-1, 1]))
            if q:
                k0 = int(rng.integers(0, 3))
                e = [L + m * q ** (k0 + k) for k in range(3)]
            else:
                e = [L + 4 * m, L + 2 * m, L + m]            # q = 1/2
            yield dict(kind='typed', e=e, L=L, form=str(rng.choice(['int', 'np_int64', 'int_array', 'list', 'pyfloat', 'mixed', 'int32_array'])))
        elif u < 0.97:
            shape = [int(s) for s in rng.integers(1, 5, size=int(rng.integers(0, 4)))]
            yield dict(kind='array', shape=shape, seed=int(rng.integers(0, 2 ** 31)))
        else:
            yield dict(kind='internal', fun=str(rng.choice(list(FUNS))), x=float(rng.uniform(-2, 2)),
                       method=str(rng.choice(['central', 'forward', 'backward', 'complex'])),
                       n=int(rng.integers(1, 4)), order=int(rng.choice([1, 2, 3, 4, 6])),
                       veclen=int(rng.integers(0, 4)))


def _bucket_q(q):
    aq = abs(q)
    b = 0 if aq < 0.1 else 1 if aq < 0.5 else 2 if aq < 0.9 else 3 if aq < 1.1 else 4 if aq < 5 else 5
    return (b, q < 0)


def run_case(case, ctx):
    dea3, nd = _lib()
    kind = case['kind']
    ctx.count('cases:' + kind)
    if case.get('seed', 0) % 40 == 7 or ctx.counters.get('cases:' + kind, 0) == 1:
        # history: the routine has been used on terms of other precisions before (float32, float16, complex64, integers): a
        # stateless function owes the present (binary64) terms nothing less for that
        ctx.count('earlier_calls_in_other_precisions')
        try:
            with np.errstate(all='ignore'):
                dea3(np.float32(1.0), np.float32(1.5), np.float32(1.75))
                dea3(np.array([1.0, 2.0], dtype=np.float16), np.array([1.5, 2.5], dtype=np.float16), np.array([1.75, 2.75], dtype=np.float16))
                dea3(np.complex64(1 + 1j), np.complex64(1.5 + 0.5j), np.complex64(1.75 + 0.25j))
                dea3(1, 2, 4)
        except Exception:
            pass
    if kind == 'geom':
        L, a, q, k0 = case['L'], case['a'], case['q'], case['k0']
        FL, Fa, Fq = F(L), F(a), F(q)
        e = tuple(float(FL + Fa * Fq ** (k0 + k)) for k in range(3))
        snap = e
        out = call_scalar(ctx, e)
        if out is None:
            return
        res, err = out
        if np.shape(res) != (1,) or np.shape(err) != (1,):
            ctx.reject('shape', observed=[list(np.shape(res)), list(np.shape(err))], expected=[[1], [1]])
            return
        ratio_decade = int(math.floor(math.log10(abs(a) / abs(L)))) if L != 0 else 99
        ratio_decade = max(-12, min(12, ratio_decade))
        check_triple(ctx, e, float(res[0]), float(err[0]), L=L,
                     nontrivial_key=('geom', ratio_decade, _bucket_q(q)))
        if len(ctx.samples) < 3:
            ctx.sample(dict(case=case, terms=list(e), result=float(res[0]), abserr=float(err[0])))
    elif kind in ('special', 'triple'):
        e = tuple(SPECIAL[i] for i in case['idx']) if kind == 'special' else tuple(case['e'])
        out = call_scalar(ctx, e)
        if out is None:
            return
        res, err = out
        check_triple(ctx, e, float(res[0]), float(err[0]))
    elif kind == 'typed':
        e, form = case['e'], case['form']
        args = {'int': [int(v) for v in e], 'np_int64': [np.int64(v) for v in e], 'int_array': [np.array([v]) for v in e],
                'int32_array': [np.array([v], dtype=np.int32) for v in e],
                'list': [[int(v)] for v in e], 'pyfloat': [float(v) for v in e],
                'mixed': [int(e[0]), float(e[1]), np.int64(e[2])]}[form]
        try:
            res, err = dea3(*args)
        except Exception as exc:
            ctx.reject('raised', observed=repr(exc), detail=dict(e=list(e), form=form))
            return
        ctx.count('typed_inputs:' + form)
        if np.shape(res) != (1,) or np.shape(err) != (1,):
            ctx.reject('shape', observed=[list(np.shape(res)), list(np.shape(err))], expected=[[1], [1]], detail=dict(form=form))
            return
        check_triple(ctx, tuple(float(v) for v in e), float(res[0]), float(err[0]), L=float(case['L']))
    elif kind == 'array':
        rng = np.random.default_rng(case['seed'])
        shape = tuple(case['shape'])
        size = int(np.prod(shape)) if shape else 1
        L = rng.normal(size=size) * 10.0 ** rng.uniform(-3, 3, size=size)
        a = rng.normal(size=size) * 10.0 ** rng.uniform(-3, 3, size=size)
        q = rng.uniform(-0.95, 0.95, size=size)
        ties = rng.random(size) < 0.15
        es = [np.where(ties, L, L + a * q ** k).reshape(shape) for k in range(3)]
        if len(shape) >= 2:
            lay = ['C', 'F', 'swapped', 'mixed'][case['seed'] % 4]
            if lay == 'F':
                es = [np.asfortranarray(v) for v in es]
            elif lay == 'swapped':
                es = [np.ascontiguousarray(np.swapaxes(v, 0, -1)).swapaxes(0, -1) for v in es]
            elif lay == 'mixed':
                es = [es[0], np.asfortranarray(es[1]), es[2]]
            if lay != 'C':
                ctx.count('array_memory_layout:' + lay)
        copies = [np.array(v, copy=True) for v in es]
        try:
            res, err = dea3(*es)
            res_then, err_then = res.copy(), err.copy()
            # (the flag as a keyword or, as its position in the documented signature dea3(v0, v1, v2, symmetric) allows, positionally)
            if case['seed'] % 2:
                res_s, err_s = dea3(es[0], es[1], es[2], True)
                ctx.count('symmetric_flag_given_positionally')
            else:
                res_s, err_s = dea3(*es, symmetric=True)
            dea3(*[v * 1.5 + 0.25 for v in es])
            if res.tobytes() != res_then.tobytes() or err.tobytes() != err_then.tobytes():
                ctx.reject('returned_arrays_changed_by_a_later_call', detail=dict(shape=list(shape)))
                return
        except Exception as exc:
            ctx.reject('raised', observed=repr(exc), detail=dict(shape=list(shape)))
            return
        for before, after in zip(copies, es):
            if before.tobytes() != after.tobytes():
                ctx.reject('input_modified', detail=dict(tag='direct array'))
                return
        exp_shape = shape if shape else (1,)
        if res.shape != exp_shape or err.shape != exp_shape:
            ctx.reject('shape', observed=[list(res.shape), list(err.shape)], expected=list(exp_shape))
            return
        flat = [np.ravel(v) for v in es]
        for i in range(size):
            r1, e1 = dea3(flat[0][i], flat[1][i], flat[2][i])
            if not (np.array([r1[0], e1[0]]).tobytes() ==
                    np.array([res.flat[i], err.flat[i]]).tobytes()):
                ctx.reject('array_not_elementwise', observed=[float(res.flat[i]), float(err.flat[i])],
                           expected=[float(r1[0]), float(e1[0])], detail=dict(index=i))
                return
        ctx.count('array_equiv_asserted')
        # symmetric=True only trims: result[:-1], abserr[1:] (when more than one element)
        if len(res) > 1:
            ok = (res_s.tobytes() == res[:-1].tobytes() and err_s.tobytes() == err[1:].tobytes())
        else:
            ok = (res_s.tobytes() == res.tobytes() and err_s.tobytes() == err.tobytes())
        ctx.count('symmetric_asserted')
        if not ok:
            ctx.reject('symmetric_not_a_trim', detail=dict(shape=list(shape)))
    elif kind == 'internal':
        f = FUNS[case['fun']]
        x = case['x'] if case['veclen'] == 0 else case['x'] + 0.1 * np.arange(case['veclen'])
        _state['internal'] = True
        try:
            nd.Derivative(f, method=case['method'], n=case['n'], order=case['order'])(x)
            if case['n'] == 1:
                from numdifftools.limits import Limit
                Limit(lambda z: np.sin(z) / z, method='above')(0.0)
        except Exception:
            ctx.count('internal_workload_exception(ignored here; decided by C01)')
        finally:
            _state['internal'] = False


def classify(wit):
    return None

TECHNIQUE = ('runtime monitoring: contracts on direct calls + sys.monitoring observer on every internal '
             'dea3 call; exact-rational Shanks oracle')
LEVEL_TEXT = ('exploration: every observed dea3 execution (direct, array, and internal calls made by '
              'Derivative/Limit) is decided by an exact-rational three-term Shanks oracle and totality '
              'invariants; held on the executions observed, not a proof over all floats')
LEVEL_NOTE = ('trusts CPython Fraction arithmetic and float<->Fraction conversion; guard membership is decided '
              'exactly with a margin band that only receives the totality checks')
