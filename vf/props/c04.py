"""C04 - Hessian is symmetric and correct; Hessdiag is its diagonal."""
import math

import numpy as np

from vf.props import _deriv as D

ID = 'C04'
NSHARDS = dict(quick=8, thorough=16)
BUDGET = dict(quick=2000, thorough=80000)
ANCHORS = ['numdifftools.finite_difference:HessianDifferenceFunctions._central_even',
           'numdifftools.finite_difference:HessianDifferenceFunctions._central2',
           'numdifftools.finite_difference:HessianDifferenceFunctions._forward',
           'numdifftools.finite_difference:HessianDifferenceFunctions._backward',
           'numdifftools.finite_difference:HessianDifferenceFunctions._complex_even',
           'numdifftools.finite_difference:HessianDifferenceFunctions._multicomplex2',
           'numdifftools.finite_difference:HessdiagDifferenceFunctions._central_even',
           'numdifftools.finite_difference:HessdiagDifferenceFunctions._forward',
           'numdifftools.finite_difference:HessdiagDifferenceFunctions._backward',
           'numdifftools.finite_difference:HessdiagDifferenceFunctions._complex_even',
           'numdifftools.finite_difference:HessdiagDifferenceFunctions._multicomplex2',
           'numdifftools.finite_difference:LogHessianRule.apply']
MIN_COUNTERS = dict(quick={'symmetry_asserted': 1500, 'quadratic_entries_asserted': 3000, 'general_entries_asserted': 3000,
                           'hessdiag_vs_hessian_asserted': 300, 'length_one_output_cases': 150,
                           'complex_valued_cases': 100, 'scalar_x_cases': 50, 'integer_x_cases': 100,
                           'quadratic_raw_quotients_asserted': 20000},
                    thorough={'symmetry_asserted': 60000})
RULE = ('x also as Python ints with integer-coefficient polynomials; Hessdiag objects that reach their method through the setter after use; every raw difference quotient of a quadratic is asserted before extrapolation. ' 
        'n in 1..6; f = c + b.x + x\'Qx/2 (quadratic: every second-difference formula is exact on it) and f = exp(a.x) + sin(b.x) + '
        'x\'Qx/2 (analytic Hessian), Q random symmetric with non-zero off-diagonal entries; methods central, central2, forward, '
        'backward, complex, multicomplex; Hessdiag orders 2, 4, 6; f returning a length-1 array; complex-valued f (i q(x), '
        'exp(i a.x)) for the real-step methods; scalar x; default steps, scalar steps and small user generators. distinct '
        'non-trivial = (n, method, family, variant) with an off-diagonal entry >= 1e-2 max|H|')
ASSUMPTIONS = ['symmetry and shape are exact (np.array_equal(H, H.T))',
               'quadratic f: |H_ij - Q_ij| <= 64 * eps * Lambda * max|f on the stencil| / (h_i h_j) with h the reported final steps '
               '(real-step methods; complex-step methods with max(h, 1))',
               'general f: |H - exact| <= 300 * error_estimate + 10 * rounding floor; Hessdiag agrees with diag(Hessian) within '
               '300 * (est_hd + est_h) + both floors']
EPS = 2.0 ** -52
HMETHODS = ['central', 'central2', 'forward', 'backward', 'complex', 'multicomplex']
DMETHODS = ['central', 'forward', 'backward', 'complex', 'multicomplex']


def setup(ctx, mon):
    D.setup_monitors(ctx, mon, ANCHORS)

    def on_extrapolate(frame):
        # the difference quotients (rule applied, nothing extrapolated yet), one row per step
        loc = frame.f_locals
        try:
            D._OBS['raw'] = (np.array(loc['results'], copy=True), np.array(loc['steps'], copy=True), tuple(loc['shape']))
        except Exception:
            pass
    mon.watch('numdifftools.limits:_Limit._extrapolate', on_start=on_extrapolate, lines=False)


def cases(rng, tier, shard, nshards):
    for i in range(BUDGET[tier] // nshards):
        method = HMETHODS[i % 6]
        u = rng.random()
        if u < 0.65:
            step = dict(kind='default')
        elif u < 0.8:
            step = dict(kind='scalar', value=float(10.0 ** rng.uniform(-4, -2)))
        else:
            step = dict(kind='min', opts=dict(base_step=float(10.0 ** rng.uniform(-5, -3)), num_steps=int(rng.integers(5, 10)),
                                              step_ratio=2.0))
        variant = str(rng.choice(['plain', 'plain', 'plain', 'length1', 'complex_valued', 'scalar_x', 'integer_x', 'zero_d_output']))
        if variant == 'complex_valued' and method in ('complex', 'multicomplex'):
            variant = 'plain'
        n = 1 if variant == 'scalar_x' else int(rng.integers(1, 7))
        yield dict(n=n, method=method, family=str(rng.choice(['quadratic', 'general'])), variant=variant,
                   hd_order=int(rng.choice([2, 4, 6])), seed=int(rng.integers(0, 2 ** 31)), step=step)


def run_case(case, ctx):
    import numdifftools as nd
    rng = np.random.default_rng(case['seed'])
    n, method, family, variant = case['n'], case['method'], case['family'], case['variant']
    x = np.round(rng.uniform(-1.5, 1.5, size=n), 3)
    Q = np.round(rng.normal(size=(n, n)), 3)
    Q = Q + Q.T
    for i in range(n):
        for j in range(n):
            if i != j and abs(Q[i, j]) < 0.2:
                Q[i, j] = Q[j, i] = 0.5
    a = np.round(rng.uniform(-0.8, 0.8, size=n), 3)
    b = np.round(rng.uniform(-1.2, 1.2, size=n), 3)
    c0 = float(np.round(rng.normal(), 3))
    cplx = variant == 'complex_valued'

    def lin(w, z):
        s = 0.0
        for k in range(n):
            s = s + w[k] * z[k]
        return s

    def quad(z):
        s = 0.0
        for i in range(n):
            for j in range(n):
                s = s + 0.5 * Q[i, j] * z[i] * z[j]
        return s

    if family == 'quadratic':
        def f0(z):
            return c0 + lin(b, z) + quad(z)
        exact = Q.copy().astype(complex if cplx else float)
        fscale = abs(c0) + float(np.sum(np.abs(b) * (np.abs(x) + 1))) + float(np.sum(np.abs(Q)) * (np.max(np.abs(x)) + 1) ** 2)
    else:
        def f0(z):
            return np.exp(lin(a, z)) + np.sin(lin(b, z)) + quad(z)
        ea, sb = math.exp(float(a @ x)), math.sin(float(b @ x))
        exact = (np.outer(a, a) * ea - np.outer(b, b) * sb + Q).astype(complex if cplx else float)
        fscale = math.exp(float(np.sum(np.abs(a) * (np.abs(x) + 1)))) + 1 + float(np.sum(np.abs(Q)) * (np.max(np.abs(x)) + 1) ** 2)
    if variant == 'integer_x':
        # x given as Python ints and an integer-coefficient polynomial evaluated in the arithmetic of its argument:
        # f(x) itself is an integer (numpy int64), the values at the shifted points are not
        ctx.count('integer_x_cases')
        x = rng.integers(-3, 4, size=n)
        P = np.triu(rng.integers(-3, 4, size=(n, n)))
        P[(P == 0) & (np.triu(np.ones((n, n), dtype=int), 1) == 1)] = 2
        bi = rng.integers(-3, 4, size=n)
        ti = rng.integers(-2, 3, size=n) if family != 'quadratic' else np.zeros(n, dtype=int)
        ci = int(rng.integers(-3, 4))

        def f0(z):
            s = ci
            for k in range(n):
                s = s + int(bi[k]) * z[k] + int(ti[k]) * z[k] * z[k] * z[k]
            for i in range(n):
                for j in range(i, n):
                    s = s + int(P[i, j]) * z[i] * z[j]
            return s
        exact = (P + P.T).astype(float)     # diagonal 2 P_ii, off-diagonal P_ij
        exact[np.diag_indices(n)] += 6.0 * ti * x
        ax = np.abs(x) + 1.0
        fscale = abs(ci) + float(np.sum(np.abs(bi) * ax)) + float(np.sum(np.abs(ti) * ax ** 3)) + float(np.sum(np.abs(P))) * float(np.max(ax)) ** 2
    if cplx and case['seed'] % 2:
        # complex-valued, but with an imaginary part that is exactly zero (with zero gradient) at the point itself:
        # f0(z) + i (z - x)' Qc (z - x); the value f(x) is real, the Hessian is not
        Qc = np.triu(rng.integers(-3, 4, size=(n, n))).astype(float)
        Qc = Qc + Qc.T
        Qc[np.diag_indices(n)] = np.where(np.diag(Qc) == 0, 2.0, np.diag(Qc))
        x_c = np.array(x, dtype=float)

        def f(z):
            d_ = [z[k] - float(x_c[k]) for k in range(n)]
            q_ = 0.0
            for i_ in range(n):
                for j_ in range(n):
                    q_ = q_ + 0.5 * float(Qc[i_, j_]) * d_[i_] * d_[j_]
            return f0(z) + 1.0j * q_
        exact = exact + 1.0j * Qc
        fscale = fscale + float(np.sum(np.abs(Qc)))
        ctx.count('complex_valued_with_real_value_at_x')
    elif cplx:
        f = lambda z: (0.5 + 1.0j) * f0(z)
        exact = (0.5 + 1.0j) * exact
        fscale *= 1.2
    elif variant == 'length1' and case['seed'] % 2:
        # ... handed back in one preallocated buffer that the function reuses for every call (np.matmul(..., out=buf))
        ctx.count('length_one_output_in_a_reused_buffer')
        buf_ = np.zeros(1, dtype=complex if method in ('complex', 'multicomplex') else float)

        def f(z):
            v_ = f0(z)
            if isinstance(v_, (int, float, complex, np.number)):
                buf_[0] = v_
                return buf_
            return np.array([v_])        # (a Bicomplex value: no buffer)
    elif variant == 'length1':
        f = lambda z: np.array([f0(z)])
    elif variant == 'zero_d_output':
        # the value comes back as a 0-d array (np.asarray / np.where / np.squeeze of a 1 x 1 result): a mutable object
        ctx.count('zero_d_output_cases')
        f = lambda z: np.asarray(f0(z))
    else:
        f = f0
    if variant in ('length1',):
        ctx.count('length_one_output_cases')
    if cplx:
        ctx.count('complex_valued_cases')
    xin = float(x[0]) if variant == 'scalar_x' else [int(v) for v in x] if variant == 'integer_x' else x.copy()
    if variant == 'scalar_x':
        ctx.count('scalar_x_cases')
        f_user = (lambda z: f0(np.atleast_1d(z))) if not hasattr(xin, '__len__') else f
        f = lambda z: f0(z)        # the library hands a length-1 vector to f
    step = D.build_step(nd, case['step'])
    x_then = np.array(xin, copy=True) if isinstance(xin, np.ndarray) else None

    def aborted_call_first(cls_name, **kw_):
        # history: an earlier call on the caller's own array was abandoned because the user function raised after a few
        # evaluations; the array must be what it was, and the call that is judged must not see anything of the aborted one
        left = [1 + case['seed'] % 5]

        def failing(z):
            left[0] -= 1
            if left[0] < 0:
                raise RuntimeError('user function failed')
            return f(z)
        ctx.count('earlier_call_aborted_by_an_exception')
        try:
            with np.errstate(all='ignore'):
                getattr(nd, cls_name)(failing, **kw_)(xin)
        except Exception:
            pass

    def caller_array_changed(where):
        if seen_changed:
            ctx.reject('callers_array_modified', observed=seen_changed[0], expected=x_then, detail=dict(seen='by the user function during ' + where),
                       method=method, n=n)
            return True
        if x_then is not None and np.asarray(xin).tobytes() != x_then.tobytes():
            ctx.reject('callers_array_modified', observed=np.asarray(xin), expected=x_then, detail=dict(after=where), method=method, n=n)
            return True
        if x_then is not None:
            ctx.count('callers_array_unchanged_asserted')
        return False
    seen_changed = []
    if x_then is not None:
        # ... nor may the user function ever find the caller's array changed while a call is in progress (f may refer to it)
        f_plain = f

        def f(z):
            if not seen_changed and xin.tobytes() != x_then.tobytes():
                seen_changed.append(np.array(xin, copy=True))
            return f_plain(z)
    if x_then is not None and case['seed'] % 4 == 1:
        aborted_call_first('Hessian', method=method, step=D.build_step(nd, case['step']))
        if caller_array_changed('an aborted Hessian call'):
            return
    D._OBS.clear()
    try:
        with np.errstate(all='ignore'):
            H, info = nd.Hessian(f, method=method, step=step, full_output=True)(xin)
    except Exception as exc:
        ctx.reject('hessian_raised', observed='%s: %s' % (type(exc).__name__, str(exc)[:150]),
                   method=method, variant=variant, n=n, family=family)
        return
    if caller_array_changed('a Hessian call'):
        return
    lamH = max(D._OBS.get('rule_abs', 1.0), 1.0) * max(D._OBS.get('rich_abs', 1.0), 1.0)
    H = np.asarray(H)
    ctx.count('symmetry_asserted')
    if H.shape != (n, n):
        ctx.reject('hessian_shape', observed=list(H.shape), expected=[n, n], method=method, variant=variant)
        return
    if not np.array_equal(H, H.T):
        ctx.reject('hessian_not_exactly_symmetric', observed=H, method=method, variant=variant, n=n)
        return
    est = np.abs(np.asarray(info.error_estimate)).astype(float)
    hh = np.abs(np.asarray(info.final_step)).astype(float)
    if est.shape != (n, n) or hh.shape != (n, n):
        ctx.reject('hessian_info_shape', observed=[list(est.shape), list(hh.shape)], expected=[n, n], method=method)
        return
    cancel_free = method in ('complex', 'multicomplex')
    hden = np.maximum(hh, 1.0) if method == 'multicomplex' else hh
    raw = D._OBS.get('raw')
    if family == 'quadratic' and raw is not None and raw[2] == (n, n):
        # "exact to rounding for quadratic f", where it is decided: every difference quotient, at every step, before
        # any extrapolation (a quadratic has no truncation error in any of the formulas). The final value may add the
        # noise amplification of the Richardson / Wynn stage, which the library reports in its estimate (below).
        res_k, h_k = raw[0].reshape(raw[0].shape[0], -1), np.abs(raw[1].reshape(raw[1].shape[0], -1))
        lam_rule = max(D._OBS.get('rule_abs', 1.0), 1.0)
        hk = np.maximum(h_k, 1.0) if method == 'multicomplex' else h_k
        with np.errstate(all='ignore'):
            num = np.abs(res_k - exact.reshape(1, -1))
            # (the complex-step formula differences imaginary parts of size h |grad f|: its rounding is eps |grad f| / h, one
            # power of h better than that of the real-step formulas, eps |f| / h^2)
            den = 64 * EPS * lam_rule * fscale / (hk ** 2 if method != 'complex' else hk)
            ratio = np.where(den > 0, num / np.where(den > 0, den, 1.0), np.where(num == 0, 0.0, np.inf))
        ctx.count('quadratic_raw_quotients_asserted', int(ratio.size))
        rmax = float(np.max(ratio)) if ratio.size else 0.0
        ctx.maximum('raw_quotient_err/bound:quadratic:%s' % method, rmax)
        if not rmax <= 1:
            kk, ee = np.unravel_index(int(np.argmax(ratio)), ratio.shape)
            ctx.reject('difference_quotient_of_quadratic_not_exact', observed=complex(res_k[kk, ee]),
                       expected=complex(exact.reshape(-1)[ee]), detail=dict(step=float(h_k[kk, ee]), entry=[int(ee // n), int(ee % n)],
                                                                            ratio=rmax, fscale=fscale),
                       method=method, family=family, variant=variant, n=n, step_kind=case['step']['kind'])
            return
    worst, at = 0.0, None
    for i in range(n):
        for j in range(n):
            err = abs(H[i, j] - exact[i, j])
            hij = float(hden[i, j]) ** 2 if method != 'complex' else float(hden[i, j])
            floor = EPS * lamH * fscale / hij
            if family == 'quadratic':
                bound = 64 * floor + (10 if method != 'complex' else 300) * est[i, j]
                ctx.count('quadratic_entries_asserted')
            else:
                bound = 300 * est[i, j] + 10 * floor
                ctx.count('general_entries_asserted')
            r = err / bound if bound > 0 else (0.0 if err == 0 else math.inf)
            if r > worst:
                worst, at = r, dict(i=i, j=j, observed=complex(H[i, j]), expected=complex(exact[i, j]), err=err,
                                    bound=bound, est=float(est[i, j]), h=float(hh[i, j]))
    ctx.maximum('err/bound:%s:%s' % (family, method), worst, dict(case=case, at=at))
    if worst > 1:
        ctx.reject('hessian_entry', observed=at['observed'], expected=at['expected'], detail=dict(at, lam=lamH),
                   method=method, family=family, variant=variant, n=n, step_kind=case['step']['kind'],
                   off_diagonal=bool(at['i'] != at['j']))
        return
    # ---- Hessdiag
    if method != 'central2':
        if x_then is not None and case['seed'] % 4 in (1, 2):
            aborted_call_first('Hessdiag', method=method, order=case['hd_order'], step=D.build_step(nd, case['step']))
            if caller_array_changed('an aborted Hessdiag call'):
                return
        D._OBS.clear()
        try:
            with np.errstate(all='ignore'):
                if case['seed'] % 3 == 0:
                    # the object has been used with another method before and reaches this one through the setter
                    m0 = [mm_ for mm_ in ('forward', 'backward', 'central', 'complex', 'multicomplex') if mm_ != method][case['seed'] % 4]
                    hobj = nd.Hessdiag(f, method=m0, order=case['hd_order'], step=D.build_step(nd, case['step']), full_output=True)
                    try:
                        hobj(xin)
                    except Exception:
                        pass
                    hobj.method = method
                    D._OBS.clear()
                    ctx.count('hessdiag_method_set_on_a_used_object')
                else:
                    hobj = nd.Hessdiag(f, method=method, order=case['hd_order'], step=D.build_step(nd, case['step']),
                                       full_output=True)
                hd, dinfo = hobj(xin)
                if case['seed'] % 3 == 0 and case['step']['kind'] != 'default':
                    # (with the default steps the kind of generator is chosen from the method at construction; compared for given steps)
                    # ... and what it returns is what a new object of this configuration returns (value and estimate, bit for bit):
                    # nothing of the method used before is left in the rules
                    hd_f, dinfo_f = nd.Hessdiag(f, method=method, order=case['hd_order'], step=D.build_step(nd, case['step']),
                                                full_output=True)(np.array(xin, copy=True) if isinstance(xin, np.ndarray) else xin)
                    ctx.count('hessdiag_after_method_switch_compared_with_a_new_object')
                    if np.asarray(hd).tobytes() != np.asarray(hd_f).tobytes() or \
                            np.asarray(dinfo.error_estimate).tobytes() != np.asarray(dinfo_f.error_estimate).tobytes():
                        ctx.reject('hessdiag_depends_on_the_method_used_before', observed=[np.ravel(hd)[:3], np.ravel(dinfo.error_estimate)[:3]],
                                   expected=[np.ravel(hd_f)[:3], np.ravel(dinfo_f.error_estimate)[:3]], method=method, variant=variant,
                                   detail=dict(method_before=m0, order=case['hd_order'], step=case['step']))
                        return
        except Exception as exc:
            ctx.reject('hessdiag_raised', observed='%s: %s' % (type(exc).__name__, str(exc)[:150]),
                       method=method, variant=variant, n=n, order=case['hd_order'])
            return
        if caller_array_changed('a Hessdiag call'):
            return
        lamD = max(D._OBS.get('rule_abs', 1.0), 1.0) * max(D._OBS.get('rich_abs', 1.0), 1.0)
        hd = np.asarray(hd)
        if hd.shape != (n,):
            ctx.reject('hessdiag_shape', observed=list(hd.shape), expected=[n], method=method, variant=variant)
            return
        ed = np.abs(np.asarray(dinfo.error_estimate)).astype(float).ravel()
        hdstep = np.abs(np.asarray(dinfo.final_step)).astype(float).ravel()
        hden_d = np.maximum(hdstep, 1.0) if method == 'multicomplex' else hdstep
        floor_d = EPS * lamD * fscale / hden_d ** 2
        floor_h = EPS * lamH * fscale / np.diag(hden) ** 2
        ctx.count('hessdiag_vs_hessian_asserted')
        dexact = np.diag(exact)
        e1 = np.abs(hd - dexact)
        r1 = float(np.max(e1 / (300 * ed + 10 * floor_d)))
        ctx.maximum('hessdiag_err/bound:%s' % method, r1)
        if r1 > 1:
            k = int(np.argmax(e1 / (300 * ed + 10 * floor_d)))
            ctx.reject('hessdiag_entry', observed=complex(hd[k]), expected=complex(dexact[k]),
                       detail=dict(k=k, est=float(ed[k]), floor=float(floor_d[k]), order=case['hd_order']),
                       method=method, family=family, variant=variant, n=n, order=case['hd_order'])
            return
        d = np.abs(hd - np.diag(H))
        b2 = 300 * (ed + np.diag(est)) + 10 * (floor_d + floor_h)
        if np.any(d > b2):
            ctx.reject('hessdiag_differs_from_hessian_diagonal', observed=hd, expected=np.diag(H), method=method, n=n)
            return
    if case['seed'] % 6 == 5 and variant == 'plain' and method != 'central2':
        # parameters given at call time belong to that call: a call with a = 2 is interrupted (f itself uses the object) by a complete
        # call with a = 3, for Hessian and Hessdiag; both equal what fresh objects return for them, bit for bit
        for cname in ('Hessian', 'Hessdiag'):
            state = dict(k=0, busy=False, inner=None)
            holder = []

            def f_par(z, a_=1.0):
                if a_ == 2.0 and not state['busy']:
                    state['k'] += 1
                    if state['k'] == 2:
                        state['busy'] = True
                        state['inner'] = np.array(holder[0](np.array(x, dtype=float), 3.0), copy=True)
                        state['busy'] = False
                return a_ * f0(z)
            okw = dict(method=method) if cname == 'Hessian' else dict(method=method, order=case['hd_order'])
            try:
                with np.errstate(all='ignore'):
                    holder.append(getattr(nd, cname)(f_par, **okw))
                    outer = np.asarray(holder[0](np.array(x, dtype=float), 2.0))
                    ref_o = np.asarray(getattr(nd, cname)(lambda z, a_=1.0: a_ * f0(z), **okw)(np.array(x, dtype=float), 2.0))
                    ref_i = np.asarray(getattr(nd, cname)(lambda z, a_=1.0: a_ * f0(z), **okw)(np.array(x, dtype=float), 3.0))
                if state['inner'] is None:
                    ctx.count('overlapping_call_not_reached(single evaluation)')
                    continue
                ctx.count('overlapping_calls_with_different_parameters')
                if outer.tobytes() != ref_o.tobytes() or np.asarray(state['inner']).tobytes() != ref_i.tobytes():
                    ctx.reject('result_depends_on_an_overlapping_call_with_other_parameters', observed=np.ravel(outer)[:4], expected=np.ravel(ref_o)[:4],
                               detail=dict(cls=cname, overlapping='re-entrant use'), method=method, n=n)
                    return
            except Exception as exc:
                ctx.reject('hessian_raised', observed='%s: %s' % (type(exc).__name__, str(exc)[:150]), method=method, variant='overlapping', n=n, family=family)
                return
    offmax = max([abs(exact[i, j]) for i in range(n) for j in range(n) if i != j] or [0.0])
    if n > 1 and offmax >= 1e-2 * float(np.max(np.abs(exact))):
        ctx.nontrivial((n, method, family, variant))
    if len(ctx.samples) < 3:
        ctx.sample(dict(case=case, H=H, exact=exact, error_estimate=est))


def classify(wit):
    f = wit.get('facts') or {}
    if wit.get('check') in ('hessian_raised', 'hessdiag_raised') and f.get('variant') in ('length1', 'scalar_x') \
            and ('setting an array element' in str(wit.get('observed')) or 'correct size' in str(wit.get('observed'))):
        return 'hessian-length-one-output'
    return None


TECHNIQUE = ('runtime monitoring: contracts on Hessian / Hessdiag returns (exact symmetry and shape, closed-form Hessian oracle), '
             'observers on the Hessian / Hessdiag difference functions and on the applied Richardson weights')
LEVEL_TEXT = ('exploration: every observed Hessian is decided by exact symmetry/shape conditions and by closed-form second '
              'derivatives (quadratics exact to conditioning-scaled rounding, general functions in honesty form)')
LEVEL_NOTE = 'closed-form Hessians evaluated in binary64; tolerances carry >= 30x head-room over the unchanged tree'
