"""Shared machinery of C01 / C02: run one Derivative case on the real library under the monitors,
compute the independent oracle (jets), the local scale S*, the scope decisions and the measurements
both properties judge.  See DESIGN.md section 3.2 for the definitions implemented here.
"""
import math

import numpy as np

from vf import expr as X
from vf.boundary import Recorder
from vf.oracle import jets

EPS = 2.0 ** -52
METHODS = ['central', 'forward', 'backward', 'complex', 'multicomplex']
NMAX = dict(central=10, forward=6, backward=6, complex=8, multicomplex=2)
_OBS = {}
_JCTX = None


def jctx():
    global _JCTX
    if _JCTX is None:
        _JCTX = jets.Ctx(50)
    return _JCTX


# ------------------------------------------------------------------------------ monitors
def setup_monitors(ctx, mon, anchors):
    import numdifftools  # noqa

    def on_yield(frame, val):
        _OBS.setdefault('steps', []).append(np.array(val, copy=True))

    def on_rule(frame, ret):
        _OBS['rule_len'] = int(np.size(ret))
        _OBS['rule_abs'] = float(np.sum(np.abs(ret)))
        loc = frame.f_locals
        if 'parity' in loc:
            _OBS['parity'] = int(loc['parity'])
            ctx.count('reach:parity_class:%d' % loc['parity'])
        if loc.get('self') is not None:
            try:
                if loc['self']._flip_fd_rule:
                    ctx.count('reach:flipped_rule')
            except Exception:
                pass

    def on_rich(frame, ret):
        _OBS['rich_abs'] = float(np.sum(np.abs(ret)))

    def on_esterr(frame):
        try:
            _OBS['rich_m_old'] = int(np.shape(frame.f_locals['old_sequence'])[0])
        except Exception:
            pass

    def on_best(frame, ret):
        loc = frame.f_locals
        try:
            _OBS['table_rows'] = int(np.shape(loc['errors'])[0])
            _OBS['idx'] = np.array(loc['idx'], copy=True)
        except Exception:
            pass

    def on_outliers(frame, ret):
        der = frame.f_locals.get('der')
        if der is not None:
            _OBS['der_table'] = np.array(der, copy=True)
        if der is not None and np.any(np.isnan(der)):
            ctx.count('reach:nan_path_of_outlier_trimming')

    def on_dea3(frame, ret):
        loc = frame.f_locals
        conv = loc.get('converged')
        if conv is not None:
            ctx.count('reach:dea3_converged_elements', int(np.count_nonzero(conv)))
            ctx.count('reach:dea3_extrapolated_elements', int(np.size(conv) - np.count_nonzero(conv)))

    def mkdiff(name):
        def on_start(frame):
            _OBS['diff'] = name
            ctx.count('reach:diff:' + name)
        return on_start

    cbs = {
        'numdifftools.step_generators:BasicMaxStepGenerator.__call__': dict(on_yield=on_yield),
        'numdifftools.finite_difference:LogRule.rule': dict(on_return=on_rule),
        'numdifftools.limits:_Limit._get_best_estimate': dict(on_return=on_best),
        'numdifftools.extrapolation:Richardson.rule': dict(on_return=on_rich),
        'numdifftools.extrapolation:Richardson._estimate_error': dict(on_start=on_esterr),
        'numdifftools.limits:_Limit._add_error_to_outliers': dict(on_return=on_outliers),
        'numdifftools.extrapolation:dea3': dict(on_return=on_dea3),
    }
    for a in anchors:
        mon.watch(a, **cbs.get(a, {}))
    for a, kw in cbs.items():
        if a not in anchors:
            mon.watch(a, lines=False, **kw)
    from numdifftools import finite_difference as fd
    for attr, obj in vars(fd.DifferenceFunctions).items():
        if isinstance(obj, staticmethod) and attr.startswith('_') and not attr.startswith('__'):
            mon.watch('numdifftools.finite_difference:DifferenceFunctions.' + attr, on_start=mkdiff(attr), lines=False)


# ------------------------------------------------------------------------------ generation
def draw_point(rng):
    u = rng.random()
    if u < 0.15:
        v = float(rng.choice([0.5, 1.0, 2.0, 0.25, 1.5, 3.0, 0.125, 8.0]))
    else:
        v = float(10.0 ** rng.uniform(-3, 2)) if rng.random() < 0.35 else float(10.0 ** rng.uniform(-1, 0.8))
    return -v if rng.random() < 0.4 else v


def draw_step_spec(rng, method, n=1):
    u = rng.random()
    if u < 0.10 and method in ('central', 'forward', 'backward') and n >= 1:
        # hostile: a long tail of steps below the rounding level h_min ~ eps^(1/n), sized so that 30-48 % of the
        # steps (hence of the rows of the extrapolation table) give differences that cancel completely
        r = float(rng.choice([3.0, 4.0]))
        b = float(rng.choice([0.5, 1.0, 2.0]))
        k0 = math.log(b / EPS ** (1.0 / n)) / math.log(r)
        N = int(min(round(k0 / (1.0 - rng.uniform(0.3, 0.48))), 60))
        return dict(kind='max', opts=dict(base_step=b, step_ratio=r, num_steps=max(N, 8)), hostile='collapsing_tail')
    if u < 0.7:
        return dict(kind='default')
    if u < 0.8:
        v_ = float(10.0 ** rng.uniform(-5, -1.5))
        # (one in five with a negative sign: a step is a signed displacement; the quotients are divided by h**n, sign included)
        return dict(kind='scalar', value=-v_ if int(v_ * 1e9) % 5 == 0 else v_)
    kind = 'min' if (method in ('complex', 'multicomplex') or rng.random() < 0.5) else 'max'
    opts = {}
    given = rng.random() < 0.7         # (else the generator's own default base step EPS**(1/scale(method, n, order)))
    if kind == 'min':
        if given:
            opts['base_step'] = float(10.0 ** rng.uniform(-6, -2))
        if rng.random() < 0.5:
            opts['num_steps'] = int(rng.integers(6, 16))
    else:
        if given:
            opts['base_step'] = float(10.0 ** rng.uniform(-2, 0.3))
        if rng.random() < 0.5:
            opts['num_steps'] = int(rng.integers(10, 24))
    if rng.random() < 0.5:
        opts['step_ratio'] = float(rng.choice([1.6, 2.0, 2.5, 3.0, 4.0])) if rng.random() < 0.7 else float(rng.uniform(1.3, 6))
    if rng.random() < 0.2:
        opts['offset'] = int(rng.integers(-2, 3))
    if rng.random() < 0.2:
        opts['use_exact_steps'] = bool(rng.random() < 0.5)
    if rng.random() < 0.15:
        opts['step_nom'] = 1.0
    # history: the generator instance handed to Derivative has already served another Derivative object (same method and n,
    # another order, another point) - generators are documented as reusable
    return dict(kind=kind, opts=opts, shared=bool(rng.random() < 0.3), shared_order=int(rng.integers(1, 9)))


def draw_config(rng, k=None):
    cells = [(m, n, o) for m in METHODS for n in range(0, NMAX[m] + 1) for o in range(1, 9)]
    if k is not None:
        return cells[k % len(cells)]
    m = METHODS[int(rng.integers(0, 5))]
    # favour low n (where most of the use is) but visit all
    n = int(rng.integers(0, NMAX[m] + 1)) if rng.random() < 0.5 else int(rng.integers(1, min(NMAX[m], 3) + 1))
    return m, n, int(rng.integers(1, 9))


def draw_program(rng):
    u = rng.random()
    if u < 0.12:
        return X.TEMPLATES[int(rng.integers(0, len(X.TEMPLATES)))]
    if u < 0.25:
        return ('fn', str(rng.choice(X.UNARY)), ('x',))
    return X.rand_tree(rng, int(rng.integers(1, 5)))


def subst(tree, repl):
    """tree with every occurrence of the variable replaced by the tree `repl`"""
    if tree == ('x',):
        return repl
    return tuple(subst(e, repl) if isinstance(e, tuple) else e for e in tree)


def stationary_inner(x0):
    """t -> x0 + (t - x0)^2 + (t - x0)^3: composing a program g with it gives f with f(x0) = g(x0), f'(x0) = 0 exactly,
    f''(x0) = 2 g'(x0), f'''(x0) = 6 g'(x0): a point where the exact first derivative vanishes while every
    difference quotient has a truncation error (the cubic term keeps the function from being even about x0)"""
    d = ('sub', ('x',), ('c', float(x0)))
    return ('add', ('c', float(x0)), ('add', ('powi', d, 2), ('powi', d, 3)))


def make_case(rng, method, n, order, complex_valued=False):
    for _ in range(60):
        tree = draw_program(rng)
        stationary = rng.random() < 0.08 and n in (1, 2) and not complex_valued
        if complex_valued:
            tree = ('mul', ('fn', 'exp', ('mul', ('ci', float(rng.choice([0.5, 1.0, 2.0, -1.5]))), ('x',))), tree)
        arr = rng.random() < 0.25 and n > 0 and not stationary
        size = int(rng.integers(2, 5)) if arr else 1
        xs = []
        int_x = rng.random() < 0.06 and not complex_valued
        for _ in range(40):
            x = float(rng.choice([1, 2, 3, -1, -2, 4, 5, 8, -3, -5])) if int_x else draw_point(rng)
            sc = X.scan(tree, [x])
            if sc.ok and sc.maxabs < 1e50:
                xs.append(x)
                if len(xs) == size:
                    break
        if len(xs) == size:
            shape = [size] if arr else []
            layout = 'C'
            if arr and size == 4 and rng.random() < 0.5:
                shape = [2, 2]
            if arr and size == 3 and rng.random() < 0.3:
                shape = [1, 3] if rng.random() < 0.5 else [3, 1]
            if len(shape) == 2:
                layout = str(rng.choice(['C', 'F', 'F', 'strided']))      # memory layout of the same logical matrix
            if stationary:
                # evaluated at the stationary point itself: the exact first derivative is 0 (and a relative error
                # estimate is worthless there)
                tree2 = subst(tree, stationary_inner(xs[0]))
                sc = X.scan(tree2, [xs[0]])
                if sc.ok and sc.maxabs < 1e50:
                    tree = tree2
                else:
                    stationary = False
            if rng.random() < (0.3 if complex_valued else 0.06) and n <= 4:
                # magnitude classes: the same program in units of 1e-200..1e-150 or 1e150..1e200 (for complex-valued programs
                # also 1e-25..1e-14): the envelope is relative, absolute tolerances have no business anywhere
                sc0 = X.scan(tree, xs)
                if sc0.ok and 1e-30 < sc0.maxabs < 1e30:
                    if complex_valued and rng.random() < 0.5:
                        cst = float(10.0 ** rng.uniform(-25, -14))
                    else:
                        cst = float(10.0 ** (rng.uniform(150, 200) * rng.choice([-1.0, 1.0])))
                    tree = ('mul', ('c', cst), tree)
            spec = draw_step_spec(rng, method, n)
            if stationary and rng.random() < 0.5:
                # a single difference quotient at a zero of the derivative: nothing but the step size can size the estimate
                spec = dict(kind='scalar', value=float(10.0 ** rng.uniform(-5, -2.5)))
            u = rng.random()
            x_form = None if u < 0.8 else str(rng.choice(['list', 'tuple'] if shape else ['zero_d', 'np_scalar']))
            return dict(tree=tree, x=xs, shape=shape, layout=layout, out_form=('zero_d' if (not shape and rng.random() < 0.15) else None), method=method, n=n, order=order, x_form=x_form, fo_later=bool(rng.random() < 0.25),
                        step=spec, cplx=bool(complex_valued), stationary=bool(stationary),
                        int_x=bool(int_x))
    return None


def build_step(nd, spec):
    if spec['kind'] == 'default':
        return None
    if spec['kind'] == 'scalar':
        return spec['value']
    return (nd.MinStepGenerator if spec['kind'] == 'min' else nd.MaxStepGenerator)(**spec['opts'])


# ------------------------------------------------------------------------------ oracle pieces
def s_of_rho(chat, n, rho):
    """S(rho) = n! max_k chat_k rho^(k-n)"""
    lr = math.log(rho)
    best = -math.inf
    for k, c in enumerate(chat):
        if c > 0:
            best = max(best, math.log(c) + (k - n) * lr)
    if best == -math.inf:
        return 0.0
    return math.exp(min(best + math.lgamma(n + 1), 700.0))


def rho_valid(tree, x, coefs, chat, rho_try, complex_dirs, mp):
    """Largest radius among rho_try (descending) at which the degree-K jet polynomial reproduces a direct
    50-digit evaluation of the same program at x + rho e^{i theta} to 1e-6 * max_k chat_k rho^k."""
    dirs = [1, -1]
    if complex_dirs:
        dirs += [mp.mpc(0, 1), mp.mpc(0, -1), mp.exp(mp.mpc(0, 1) * mp.pi / 4), mp.exp(mp.mpc(0, 3) * mp.pi / 4)]
    K = len(coefs) - 1
    for rho in rho_try:
        ok = True
        scale = max(mp.mpf(c) * mp.mpf(rho) ** k for k, c in enumerate(chat))     # (mpmath: rho**k may exceed the float range)
        for d in dirs:
            t = d * mp.mpf(rho)
            acc = coefs[K]
            for k in range(K - 1, -1, -1):
                acc = acc * t + coefs[k]
            try:
                direct = X.eval_mp(tree, mp.mpf(x) + t, mp)
            except Exception:
                ok = False
                break
            if isinstance(direct, mp.mpc) and not complex_dirs and d in (1, -1) and not isinstance(acc, mp.mpc):
                # a real program became complex (log/sqrt of a negative number): outside the real domain
                if abs(direct.imag) > 1e-30 * (1 + abs(direct.real)):
                    ok = False
                    break
            if not abs(direct - acc) <= 1e-6 * scale:
                ok = False
                break
        if ok:
            return rho
    return 0.0


def segment_scan(tree, x, reach, method, complex_rays):
    """(ii) of the scope: node-wise scan of the program along every evaluated ray."""
    t = np.concatenate([[0.0], np.geomspace(reach * 1e-6, reach, 66)])
    pts = []
    if method in ('central', 'forward', 'complex', 'multicomplex'):
        pts.append(x + t)
    if method in ('central', 'backward', 'complex', 'multicomplex'):
        pts.append(x - t)
    if complex_rays:
        for ang in (math.pi / 2, -math.pi / 2, math.pi / 4, 3 * math.pi / 4, -math.pi / 4, -3 * math.pi / 4):
            pts.append(x + t[1::2] * complex(math.cos(ang), math.sin(ang)))
    return X.scan(tree, np.concatenate(pts))


class Measure(object):
    """What one element of one case yields."""
    __slots__ = ('in_scope', 'skip', 'exact', 'value', 'err', 'S', 'floor', 'est', 'final_step', 'chat0', 'cn_abs',
                 'rho_valid', 'W', 'nsteps', 'cancel_free', 'noise', 'cn_noise', 'E_low', 'P_low', 'full_window', 'trunc', 'E', 'P', 'rad',
                 'chosen_beyond_validity', 'lam', 'chat', 'n', 'frac_collapsed')

    def S_at(self, rho):
        return s_of_rho(self.chat, self.n, rho)


def _retune_another(nd, f, method, n, order):
    try:
        other = nd.Derivative(f, method=method, n=n, order=order)
        other.step.base_step = 0.25
        other.step.num_steps = 1
        other.step.scale = 77.0
    except Exception:
        pass


def run_case(case, ctx, full_output=True):
    """Executes the case on the real library.  Returns dict(outcome=..., elems=[Measure...], info=..., obs=...)."""
    import numdifftools as nd
    tree = X.from_json(case['tree'])
    method, n, order = case['method'], case['n'], case['order']
    f = X.compile_np(tree)
    if case.get('out_form') == 'zero_d':
        # the user function hands its value back as a 0-d ndarray (a mutable object) instead of a numpy scalar
        f0_ = f
        f = lambda z: np.asarray(f0_(z))
        ctx.count('function_returns_0d_arrays')
    rec = Recorder(f)
    shape = tuple(case['shape'])
    xs = list(case['x'])
    x = np.array(xs, dtype=float).reshape(shape) if shape else float(xs[0])
    if case.get('int_x') and all(float(v).is_integer() for v in xs):
        # the same point handed over as Python / numpy integers (only if the program itself accepts integers there)
        # (as Python ints / int64, or in a narrow integer dtype: int8, int16, uint8 for non-negative points, int32)
        narrow = [None, None, np.int8, np.int16, np.int32, np.uint8][int(abs(xs[0])) % 6]
        if narrow is np.uint8 and min(xs) < 0:
            narrow = np.int8
        if narrow is not None:
            xi = np.array(xs, dtype=narrow).reshape(shape) if shape else narrow(int(xs[0]))
            ctx.count('integer_typed_x_in_a_narrow_dtype')
        else:
            xi = np.array(xs, dtype=int).reshape(shape) if shape else int(xs[0])
        try:
            with np.errstate(all='ignore'):
                same = np.allclose(np.asarray(f(np.asarray(xi)), dtype=complex), np.asarray(f(x), dtype=complex), rtol=1e-13, atol=0, equal_nan=True)
        except Exception:
            same = False
        if same:
            x = xi
            ctx.count('integer_typed_x_cases')
    lay = case.get('layout', 'C')
    if isinstance(x, np.ndarray) and x.ndim >= 2 and lay != 'C':
        if lay == 'F':
            x = np.asfortranarray(x)
        else:
            big = np.zeros(x.shape[:-1] + (2 * x.shape[-1],), dtype=x.dtype)
            big[..., ::2] = x
            x = big[..., ::2]
        ctx.count('x_memory_layout:' + lay)
    form = case.get('x_form')
    if lay != 'C':
        form = None
    if form and not (case.get('int_x') and not isinstance(x, (float, np.ndarray))):
        # the same point in another legal container: list / tuple (nested for matrices), 0-d array, numpy scalar
        if form in ('list', 'tuple') and shape:
            x = np.asarray(x).tolist()
            if form == 'tuple':
                x = tuple(tuple(r) if isinstance(r, list) else r for r in x)
        elif form == 'zero_d' and not shape:
            x = np.array(x)
        elif form == 'np_scalar' and not shape:
            x = np.asarray(x)[()]
        ctx.count('x_given_as:' + form)
    _OBS.clear()
    retune = False
    res = dict(outcome='ok', elems=[], obs=_OBS, rec=rec, tree=tree, x=x)
    try:
        step_obj = build_step(nd, case['step'])
        if case['step'].get('shared') and case['step']['kind'] in ('min', 'max'):
            ctx.count('step_generator_shared_with_an_earlier_object')
            try:
                with np.errstate(all='ignore'):
                    nd.Derivative(f, step=step_obj, method=method, n=n, order=case['step']['shared_order'])(0.37)
            except Exception:
                pass
            _OBS.clear()       # (what the monitors saw of the earlier object is not part of the judged call)
        if case['step']['kind'] == 'default' and int(abs(xs[0]) * 1e5) % 4 == 1:
            # history: another object built with the same defaults had its own step generator retuned through the public
            # `.step` attribute (one huge step, no extrapolation), before and after the judged object is built
            ctx.count('another_default_objects_step_generator_retuned')
            retune = True
            _retune_another(nd, f, method, n, order)
        if full_output and case.get('fo_later'):
            # full_output switched on after construction (the attribute is public and the test helpers do this)
            dobj = nd.Derivative(rec, step=step_obj, method=method, n=n, order=order)
            dobj.full_output = True
            ctx.count('full_output_set_after_construction')
        else:
            dobj = nd.Derivative(rec, step=step_obj, method=method, n=n, order=order,
                                 full_output=full_output)
        if isinstance(x, np.ndarray) and x.ndim >= 1 and x.dtype.kind == 'f' and int(abs(xs[0]) * 1e6) % 3 == 0:
            # the caller's own array updated in place between two calls of the same object (a solver's state vector)
            target = x.copy()
            x[...] = target * 1.0625 + 0.03125
            try:
                with np.errstate(all='ignore'):
                    dobj(x)
            except Exception:
                pass
            x[...] = target
            _OBS.clear()
            del rec.calls[:]
            ctx.count('same_array_updated_in_place_between_calls')
        if retune:
            _retune_another(nd, f, method, n, order)
        x_then = np.array(x, copy=True) if isinstance(x, np.ndarray) else None
        with np.errstate(all='ignore'):
            out = dobj(x)
        if x_then is not None:
            res['x_modified'] = bool(x.tobytes() != x_then.tobytes())
    except Exception as exc:
        res['outcome'] = 'raised'
        res['exc'] = exc
        return res
    val, info = out if full_output else (out, None)
    res['value'], res['info'], res['dobj'] = np.asarray(val), info, dobj
    # results the caller holds must not change when the object is used again (aliased scratch buffers)
    if isinstance(val, np.ndarray) and val.size and case.get('layout', 'C') == 'C':
        keep = [np.array(val, copy=True)] + ([np.array(v, copy=True) for v in info] if info is not None else [])
        n_calls = len(rec.calls)
        snap = {k: (list(v) if isinstance(v, list) else v) for k, v in _OBS.items()}
        try:
            with np.errstate(all='ignore'):
                dobj(np.asarray(x, dtype=float) * 1.0625 + 0.03125)
        except Exception:
            pass
        _OBS.clear()
        _OBS.update(snap)          # (what the monitors saw of the extra call is not part of the judged call)
        del rec.calls[n_calls:]
        now = [np.asarray(val)] + ([np.asarray(v) for v in info] if info is not None else [])
        res['changed_by_later_call'] = any(a.tobytes() != b.tobytes() for a, b in zip(keep, now))
        if not res['changed_by_later_call'] and val.flags.writeable and int(abs(xs[0]) * 1e4) % 3 == 0:
            # ... and what the caller does to the arrays it was given (scaling the result in place) does not reach the library: the
            # same request again gives the same numbers
            snap = {k: (list(v) if isinstance(v, list) else v) for k, v in _OBS.items()}
            n_calls = len(rec.calls)
            try:
                val *= 0.5
                if info is not None:
                    for v_ in info:
                        if isinstance(v_, np.ndarray) and v_.flags.writeable and v_.dtype.kind == 'f':
                            v_ += 1.0
                with np.errstate(all='ignore'):
                    again = dobj(x)
                again_v = np.asarray(again[0] if full_output else again)
                res['repeated_request_differs'] = bool(again_v.tobytes() != keep[0].tobytes())
            except Exception:
                res['repeated_request_differs'] = True
            _OBS.clear()
            _OBS.update(snap)
            del rec.calls[n_calls:]
            res['value'] = keep[0]
            if info is not None:
                res['info'] = type(info)(*[k_ if isinstance(o_, np.ndarray) else o_ for k_, o_ in zip(keep[1:], info)])
    res['f_finite'] = all(c.out_finite is not False for c in rec.calls)
    # element by element (an element whose own evaluations are all finite is judged even if a neighbour left the domain)
    xshape = np.shape(np.asarray(x))
    masks = [c.finite_mask for c in rec.calls]
    if xshape and all(mk is not None and mk.shape == xshape for mk in masks) and masks:
        res['f_finite_mask'] = np.logical_and.reduce(masks).ravel()
    return res


def oracle_for_element(case, res, e, x_e, value_e, est_e, fstep_e):
    """Independent oracle for element e.  Returns a Measure."""
    mp = jctx().mp
    tree = res['tree']
    method, n = case['method'], case['n']
    obs = res['obs']
    m = Measure()
    m.value, m.est, m.final_step = value_e, est_e, fstep_e
    m.in_scope, m.skip = False, None
    K = n + 24
    try:
        # Bicomplex evaluates the inverse trigonometric/hyperbolic functions through log(1 + ...) formulas (see C12)
        coefs, noise = jets.eval_jet(tree, x_e, K, jctx(), log_formula_noise=(method == 'multicomplex'))
    except Exception:
        m.skip = 'skipped_jet_domain'
        return m
    m.noise = noise
    m.exact = coefs[n] * mp.factorial(n)
    chat = [float(abs(c)) for c in coefs]
    chat[0] += noise / EPS
    m.chat0, m.cn_abs = chat[0], float(abs(m.exact))
    m.chat, m.n = chat, n
    if n == 0:
        m.in_scope = True
        return m
    steps = obs.get('steps') or []
    if not steps:
        m.skip = 'skipped_no_steps_observed'
        return m
    # effective evaluation radius: multicomplex n = 2 evaluates the holomorphic extension at x and x + 2ih
    rad = 2.0 if (method == 'multicomplex' and n == 2) else 1.0
    rhos = sorted({rad * float(np.abs(np.asarray(s).ravel()[e if np.size(s) > 1 else 0])) for s in steps}, reverse=True)
    rhos = [r for r in rhos if r > 0]
    m.rad = rad
    m.nsteps = len(rhos)
    T = obs.get('rule_len', 1)
    rich = res['dobj'].richardson
    rows_after_rule = max(len(rhos) - (T - 1), 1)
    R = min(int(rich.num_terms), rows_after_rule - 1)
    rows_after_rich = rows_after_rule - R
    W = T + R + (2 if rows_after_rich > 2 else 0)
    W = min(W, len(rhos))
    m.W = W
    # full window: the rule, every configured Richardson term and the three-term Wynn step all had data.  Otherwise
    # the estimate is (partly) un-extrapolated and legitimately carries the truncation error of its steps.
    m.full_window = bool(rows_after_rich > 2 and R == int(rich.num_terms))
    m.trunc = 0.0
    cancel_free = method == 'multicomplex' or (method == 'complex' and n == 1 and res['obs'].get('diff') == '_complex')
    m.cancel_free = cancel_free
    complex_rays = method in ('complex', 'multicomplex')
    # (ii) real-analytic on the whole probed segment
    reach = rhos[0]
    sc = segment_scan(tree, x_e, reach, method, complex_rays)
    if not sc.ok:
        m.skip = 'skipped_singular_segment'
        return m
    if cancel_free and sc.minabs * min(rhos[-1], 1.0) ** max(n, 1) < 1e-290:
        # the step-sized components (h^n f^(n) of an intermediate value) fall into the subnormal range: the relative rounding
        # model behind the envelope does not hold there (x**400 at 0.18, times 3e196: the h^2 component of x**400 is 3e-319)
        m.skip = 'skipped_step_sized_components_underflow'
        return m
    fm = res.get('f_finite_mask')
    if not (bool(fm[e]) if fm is not None and e < len(fm) else res['f_finite']):
        m.skip = 'skipped_nonfinite_f'
        return m
    # radius of validity of the Taylor model
    cap = max(rhos[0], min(1.0, 4 * abs(x_e) + 1.0)) if cancel_free else rhos[0]
    tries = []
    r = cap
    while r >= rhos[-1] * 0.999 and len(tries) < 40:
        tries.append(r)
        r /= 2.0
    if rhos[-1] not in tries:
        tries.append(rhos[-1])
    rv = rho_valid(tree, x_e, coefs, chat, tries, complex_rays, mp)
    m.rho_valid = rv
    if rv <= 0:
        m.skip = 'skipped_no_window'
        return m
    # order of the terms the rule + Richardson stage eliminate (independent model of C06, not read from the library)
    from vf.props.c06 import quotient_class
    if method == 'multicomplex':
        P, spacing = 2, 2
    else:
        _qc, spacing = quotient_class(method, n, case['order'])
        mo = max((case['order'] // spacing) * spacing, spacing)
        P = mo + spacing * R
    m.P = P
    # rounding amplification of the linear combinations actually applied (observed weights): sum|w_rule| * sum|w_richardson|
    lam = max(obs.get('rule_abs', 1.0), 1.0) * max(obs.get('rich_abs', 1.0), 1.0)
    m.lam = lam
    tail = [0.0] * (n + P) + chat[n + P:]
    P_low = 2 if method == 'multicomplex' else spacing      # nothing but the leading order of the plain formula
    tail_low = [0.0] * (n + P_low) + chat[n + P_low:]
    m.P_low = P_low

    def trunc(rho):
        return s_of_rho(tail, n, rho) if any(tail) else 0.0

    def trunc_low(rho):
        return s_of_rho(tail_low, n, rho) if any(tail_low) else 0.0
    # local scale S* (windowed) and the two-term envelope E* = min over valid windows of
    #     eps * max(S(rho_small), S(rho_big))   [rounding, amplified by 1/rho^n]   +   T_P(rho_big)   [what the
    #     extrapolation cannot remove: Taylor terms of order >= n + P at the largest step of the window]
    S, E, E_low = math.inf, math.inf, math.inf
    nat = min(1.0, rv)           # natural radius used for the rounding scale of the cancellation-free schemes
    m.cn_noise = 0.0
    if cancel_free:
        # a complex / bicomplex step evaluates the program in truncated Taylor arithmetic in binary64: its rounding is
        # that of the n-th coefficient under eps-perturbations of every node (ill-conditioned intermediates such as
        # x * (1/x) at small x show up here, not in the size of f), measured on the jet recurrences
        try:
            prng = np.random.default_rng([int(abs(float(x_e)) * 1e6) % (2 ** 31), n, 7])
            m.cn_noise = float(math.factorial(n)) * jets.coefficient_noise(tree, x_e, n, jctx(), prng, exact=coefs[n])
        except Exception:
            m.cn_noise = 0.0
    for i in range(0, len(rhos) - W + 1):
        if rhos[i] > rv:
            continue
        if cancel_free:
            sw = max(s_of_rho(chat, n, max(rhos[i + W - 1], nat)), m.cn_noise / EPS)
        else:
            sw = max(s_of_rho(chat, n, rhos[i]), s_of_rho(chat, n, rhos[i + W - 1]))
            # ... and the rounding of the argument itself: fl(x + h) is off by up to eps (|x| + h), which moves f by |f'(x + h)| times
            # that (no finite-difference code can avoid it; it is what is left at a multiple zero of f, where |f| itself is ~ h^k)
            sw = max(sw, max(s_of_rho([(k_ + 1) * chat[k_ + 1] * (abs(float(x_e)) + r_) for k_ in range(len(chat) - 1)], n, r_)
                             for r_ in (rhos[i], rhos[i + W - 1])))
        S = min(S, sw)
        E = min(E, EPS * lam * sw + trunc(rhos[i]))
        E_low = min(E_low, EPS * lam * sw + trunc_low(rhos[i]))
    if not math.isfinite(S) or S <= 0 or S > 1e250 or not math.isfinite(E) or E <= 0:
        m.skip = 'skipped_no_window'
        return m
    m.E = E
    m.E_low = E_low
    m.S = S
    m.in_scope = True
    m.chosen_beyond_validity = bool(fstep_e is not None and np.isfinite(fstep_e) and rad * abs(fstep_e) > rv * 1.0001)
    # fraction of the rows of the extrapolation table (this element's column) that collapsed towards 0 although the
    # exact derivative is not small: tiny steps at which all function differences cancel
    m.frac_collapsed = 0.0
    tab = obs.get('der_table')
    if tab is not None and tab.ndim == 2 and tab.shape[1] > e and m.cn_abs > 0:
        col = np.abs(tab[:, e])
        col = col[np.isfinite(col)]
        if col.size:
            m.frac_collapsed = float(np.mean(col <= 1e-3 * m.cn_abs))
    # honesty floor (C02): rounding a difference quotient at the reported final step cannot avoid
    if fstep_e is not None and np.isfinite(fstep_e) and abs(fstep_e) > 0:
        if cancel_free:
            grid = [t for t in tries if t <= min(1.0, rv)] or [rv]
            m.floor = max(EPS * min(s_of_rho(chat, n, r) for r in grid), m.cn_noise)
        else:
            m.floor = EPS * math.factorial(n) * chat[0] / abs(fstep_e) ** n
    else:
        m.floor = None
    try:
        m.err = float(abs(mp.mpmathify(complex(value_e)) - m.exact)) if np.isfinite(value_e) else math.inf
    except Exception:
        m.err = math.inf
    return m


def elements(case, res):
    """Yield (index, x_e, value_e, est_e, final_step_e) per element of x."""
    shape = tuple(case['shape'])
    val = res['value']
    info = res['info']
    xs = case['x']
    for e, x_e in enumerate(xs):
        v = val.flat[e] if val.size > e else np.nan
        if info is not None:
            est = np.asarray(info.error_estimate)
            fs = np.asarray(info.final_step)
            est_e = float(np.abs(est.flat[e])) if est.size > e else (float(np.abs(est.flat[0])) if est.size == 1 else None)
            fs_e = complex(fs.flat[e]) if fs.size > e else (complex(fs.flat[0]) if fs.size == 1 else None)
            fs_e = abs(fs_e) if fs_e is not None else None
        else:
            est_e = fs_e = None
        yield e, x_e, v, est_e, fs_e
