"""C18 - Limit and Residue recover removable singularities and poles."""
import cmath
import math

import numpy as np

from vf.boundary import Recorder

ID = 'C18'
NSHARDS = dict(quick=8, thorough=16)
BUDGET = dict(quick=2400, thorough=120000)
ANCHORS = ['numdifftools.limits:Limit._lim', 'numdifftools.limits:Limit._call_lim', 'numdifftools.limits:Limit.__call__',
           'numdifftools.limits:Limit.limit', 'numdifftools.limits:Residue._fun', 'numdifftools.limits:Residue.__call__',
           'numdifftools.limits:_Limit._extrapolate', 'numdifftools.limits:_Limit._get_best_estimate',
           'numdifftools.limits:CStepGenerator.step_ratio']
MIN_COUNTERS = dict(quick={'limit_values_asserted': 1500, 'residue_values_asserted': 400, 'regular_points_asserted': 300,
                           'array_cases': 300, 'two_point_limit_values_asserted': 150, 'multidimensional_array_cases': 60, 'complex_z0_cases': 400, 'spiral_cases': 400, 'side_asserted': 600,
                           'method:above': 500, 'method:below': 500},
                    thorough={'limit_values_asserted': 60000})
RULE = ('Arrays of 1 to 3 dimensions with the singular entries anywhere; step ratios also as Python ints. ' 
        'f(z) = g(z) s(z - z0), g in {exp(a z), polynomial, cos z + 2, 1/(4 + z)}, s in {sin w / w, expm1 w / w, log1p w / w, w / sin w, '
        'tan w / w, (sin(w/2)/(w/2))^2, sin(sqrt w)/sqrt w (above only)}; z0 real in [-3, 3] or complex in the unit square; method above / '
        'below; path radial / spiral; order 1..8; step_ratio 2..16; scalar and array z0 mixing singular and regular points; Residue with '
        'g/(z - z0)^p, p = 1, 2, 3; every evaluation point recorded. distinct non-trivial = (kernel, g, side, path, complex?, order) '
        'with a non-integer g(z0)')
ASSUMPTIONS = ['|value - g(z0)| <= K * error_estimate + 1e-10 * |g(z0)| with K = 1000',
               'kernels with finite singularities (log1p: w = -1, w/sin w: +-pi, tan w/w: +-pi/2) are only judged when every recorded '
               'evaluation point keeps a factor 4 of distance from them (checked from the recorder, not assumed)',
               'non-vacuity: with the default step generator the reported error_estimate is <= 1e-8 |g(z0)| (the docstrings promise '
               '1e-10..1e-14 on their examples; largest value seen on the unchanged tree 7e-11 over 120 000 cases), so "within the '
               'estimate" cannot be satisfied by merely inflating the estimate',
               'regular points: a finite f(z0) is returned bit-identically and the other entries of an array are untouched',
               'radial path: method above evaluates only at Re(z - z0) > 0, below only at Re(z - z0) < 0; spiral path: the recorded '
               'offsets do not all share one direction (recorder)']
EPS = 2.0 ** -52
K_EST = 1000.0
USEFUL = 1e-8
KERNELS = ['sinc', 'expm1', 'log1p', 'w_over_sin', 'tan', 'sinc_half_sq', 'sinc_sqrt']
GS = ['exp', 'poly', 'cos2', 'inv4', 'cexp', 'cinv']       # (the last two are complex-valued on the real axis)


def setup(ctx, mon):
    import numdifftools.limits  # noqa
    for a in ANCHORS:
        mon.watch(a)


def g_fun(name, a):
    if name == 'exp':
        return lambda z: np.exp(a * z)
    if name == 'poly':
        return lambda z: 1.5 + a * z - 0.5 * z * z + 0.25 * z * z * z
    if name == 'cos2':
        return lambda z: np.cos(z) + 2.0
    if name == 'cexp':
        return lambda z: np.exp(1j * a * z) + 0.5
    if name == 'cinv':
        return lambda z: 1.0 / (z + (2.0 + a) * 1j)
    return lambda z: 1.0 / (4.0 + z)


def s_fun(name):
    if name == 'sinc':
        return lambda w: np.sin(w) / w
    if name == 'expm1':
        return lambda w: np.expm1(w) / w
    if name == 'log1p':
        return lambda w: np.log1p(w) / w
    if name == 'w_over_sin':
        return lambda w: w / np.sin(w)
    if name == 'tan':
        return lambda w: np.tan(w) / w
    if name == 'sinc_half_sq':
        return lambda w: (np.sin(0.5 * w) / (0.5 * w)) ** 2      # = 2(1 - cos w)/w^2 in a well-conditioned form
    return lambda w: np.sin(np.sqrt(w)) / np.sqrt(w)


SING_DIST = dict(log1p=1.0, w_over_sin=math.pi, tan=math.pi / 2)


def cases(rng, tier, shard, nshards):
    for i in range(BUDGET[tier] // nshards):
        kernel = KERNELS[(i + shard) % len(KERNELS)]
        cz = bool(rng.random() < 0.35) and kernel != 'sinc_sqrt'
        path = 'spiral' if (rng.random() < 0.35 and kernel != 'sinc_sqrt') else 'radial'
        method = 'above' if (kernel == 'sinc_sqrt' or rng.random() < 0.5) else 'below'
        kind = 'limit' if rng.random() < 0.75 else 'residue'
        opts = {}
        if kernel in SING_DIST or rng.random() < 0.5:
            ratio = float(rng.choice([2.0, 3.0, 4.0, 8.0, 16.0]))
            nst = int(rng.integers(9, 16))
            top = SING_DIST.get(kernel, 4.0) / 4.0 * 10.0 ** rng.uniform(-1.0, -0.05)
            # keep the smallest step a sensible size (>= 1e-11): steps below eps are quantised away by use_exact_steps
            nst = min(nst, int(math.floor(math.log(top / 1e-11) / math.log(ratio))) + 1)
            opts = dict(step=float(top / ratio ** (nst - 1)), step_ratio=ratio, num_steps=nst)
        elif rng.random() < 0.4:
            opts = dict(step_ratio=float(rng.choice([2.0, 3.0, 4.0, 8.0, 16.0])))
        if 'step_ratio' in opts and rng.random() < 0.3:
            opts['step_ratio'] = int(opts['step_ratio'])           # the same ratio given as a Python int
        size = 0 if rng.random() < 0.6 else int(rng.integers(2, 10))
        if i % 8 == 5:
            # a stratum of its own: residues at real poles beyond 1 in magnitude (the nominal step is not 1 there) with the default
            # step generator, at most the ratio chosen
            kind, path, cz = 'residue', 'radial', False
            opts = {} if rng.random() < 0.3 else dict(step_ratio=float(rng.choice([2.0, 3.0, 4.0])))
            yield dict(kind=kind, kernel=kernel, g=str(rng.choice(GS)), a=float(np.round(rng.uniform(0.3, 1.5), 3)),
                       z0=[float(np.round(rng.choice([-1, 1]) * rng.uniform(1.05, 3.0), 3)), 0.0],
                       method=method, path=path, order=int(rng.integers(1, 9)), opts=opts, size=0 if rng.random() < 0.7 else size,
                       pole=int(rng.integers(1, 4)), seed=int(rng.integers(0, 2 ** 31)), use_limit_method=False)
            continue
        yield dict(kind=kind, kernel=kernel, g=str(rng.choice(GS)), a=float(np.round(rng.uniform(0.3, 1.5), 3)),
                   z0=[float(np.round(rng.uniform(-3, 3), 3)) if not cz else float(np.round(rng.uniform(-1, 1), 3)),
                       float(np.round(rng.uniform(-1, 1), 3)) if cz else 0.0],
                   method=method, path=path, order=int(rng.integers(1, 9)), opts=opts, size=size,
                   pole=int(rng.integers(1, 4)), seed=int(rng.integers(0, 2 ** 31)),
                   use_limit_method=bool(rng.random() < 0.2))


def run_case(case, ctx):
    from numdifftools.limits import Limit, Residue
    rng = np.random.default_rng(case['seed'])
    z0 = complex(case['z0'][0], case['z0'][1]) if case['z0'][1] else case['z0'][0]
    # the same point in another legal type: Python int (an integer point), numpy scalar, 0-d array, complex with zero imaginary part
    form = ['native', 'native', 'native', 'int', 'np_float', 'complex0', 'zero_d'][case['seed'] % 7]
    z0_given = z0
    if not isinstance(z0, complex) and form != 'native':
        if form == 'int':
            z0 = float(round(z0))
            z0_given = int(z0)
        elif form == 'np_float':
            z0_given = np.float64(z0)
        elif form == 'complex0':
            z0_given = complex(z0, 0.0)
        else:
            z0_given = np.array(z0)
        ctx.count('z0_given_as:' + form)
    g = g_fun(case['g'], case['a'])
    kernel, method, path, order = case['kernel'], case['method'], case['path'], case['order']
    opts = dict(case['opts'])
    kw = dict(method=method, order=order, full_output=True, path=path)
    kw.update(opts)
    gz0 = complex(g(z0))
    ctx.count('method:' + method)
    if isinstance(z0, complex):
        ctx.count('complex_z0_cases')
    if path == 'spiral':
        ctx.count('spiral_cases')
    if case['kind'] == 'residue':
        p = case['pole']
        if order <= p:
            order = p + 2
            kw['order'] = order

        shapes = {4: [(2, 2)], 6: [(2, 3), (3, 2)], 8: [(2, 4), (4, 2), (2, 2, 2)], 9: [(3, 3)], 2: [(2,)], 3: [(3,)], 5: [(5,)], 7: [(7,)]}
        if case['size'] and not opts.get('step') and form == 'native':
            # an array of poles (each entry its own pole: f(z) = g(z) / (z - z0_k)^p elementwise), 1 to 3 dimensions, in C or
            # Fortran memory order
            size = case['size']
            zs = z0 + 0.1 * np.arange(size) * (1 if not isinstance(z0, complex) else (1 + 0.5j))
            shp = shapes[size][int(rng.integers(0, len(shapes[size])))]
            zarr = zs.reshape(shp)
            if len(shp) >= 2 and rng.random() < 0.6:
                zarr = np.asfortranarray(zarr)
                ctx.count('residue_array_fortran_order')
            ctx.count('residue_array_cases')
            zarr_keep = zarr.copy(order='K')        # (the user's own array of poles has the same layout)
            gexp = np.array([complex(g(v)) for v in zs]).reshape(shp)

            def fa(z):
                return g(z) / (z - zarr_keep) ** p
            try:
                with np.errstate(all='ignore'):
                    val, info = Residue(fa, pole_order=p, **kw)(zarr)
            except Exception as exc:
                ctx.reject('residue_raised', observed='%s: %s' % (type(exc).__name__, str(exc)[:150]),
                           exc_type=type(exc).__name__, path=path, complex_z0=isinstance(z0, complex), array=True)
                return
            val = np.asarray(val)
            est_a = np.abs(np.asarray(info.error_estimate, dtype=float))
            if val.shape != tuple(shp):
                ctx.reject('limit_result_shape', observed=list(val.shape), expected=list(shp), residue=True)
                return
            est_a = np.broadcast_to(est_a, val.shape) if est_a.size in (1, val.size) else np.full(val.shape, float(np.max(est_a)))
            for idx in np.ndindex(*shp):
                ctx.count('residue_values_asserted')
                b_ = K_EST * float(est_a.reshape(val.shape)[idx]) + 1e-10 * abs(gexp[idx])
                if not abs(complex(val[idx]) - gexp[idx]) <= b_:
                    ctx.reject('residue_value', observed=complex(val[idx]), expected=complex(gexp[idx]),
                               detail=dict(est=float(est_a.reshape(val.shape)[idx]), pole_order=p, order=order, position=list(idx), shape=list(shp)),
                               path=path, method=method, pole_order=p, array=True)
                    return
            return

        def f(z):
            return g(z) / (z - z0) ** p
        rec = Recorder(f)
        try:
            with np.errstate(all='ignore'):
                val, info = Residue(rec, pole_order=p, **kw)(z0_given)
        except Exception as exc:
            ctx.reject('residue_raised', observed='%s: %s' % (type(exc).__name__, str(exc)[:150]),
                       exc_type=type(exc).__name__, path=path, complex_z0=isinstance(z0, complex))
            return
        v = complex(np.asarray(val).ravel()[0])
        est = float(np.abs(np.asarray(info.error_estimate)).ravel()[0])
        ctx.count('residue_values_asserted')
        bound = K_EST * est + 1e-10 * abs(gz0)
        err = abs(v - gz0)
        ctx.maximum('residue_err/bound:p=%d' % p, err / bound)
        ctx.maximum('residue_est/|g|:p=%d:%s:%s' % (p, path, 'default_steps' if not opts else 'user_steps'), est / (abs(gz0) or 1.0))
        if not err <= bound:
            ctx.reject('residue_value', observed=v, expected=gz0, detail=dict(est=est, pole_order=p, order=order),
                       path=path, method=method, pole_order=p)
            return
        if not opts and abs(gz0) <= 1e-6:
            ctx.count('usefulness_not_judged_where_the_limit_itself_is_zero')      # (a relative notion: nothing to compare with)
        elif not opts:
            ctx.count('default_estimate_usefulness_asserted')
            if not est <= USEFUL * abs(gz0):
                ctx.reject('default_configuration_reports_a_useless_estimate', observed=est, expected=USEFUL * abs(gz0),
                           detail=dict(value=v, g_z0=gz0, pole_order=p), path=path, method=method, pole_order=p)
                return
        if abs(gz0 - round(gz0.real)) > 1e-3:
            ctx.nontrivial(('residue', case['g'], method, path, isinstance(z0, complex), order, p))
        return
    # ---- Limit
    s = s_fun(kernel)

    size = case['size']
    # two different singular points in one array (their limits differ): f(z) = g(z) s((z - z0)(z - z1)), entire kernels only
    two = bool(size >= 3 and kernel in ('sinc', 'expm1', 'sinc_half_sq') and case['seed'] % 3 != 0)
    z1 = z0 + 0.53717 * ((1 + 0.5j) if isinstance(z0, complex) else 1)

    # history for a complex point: the same object has first taken the limit at a *real* singular point of the same function,
    # where the function is real-valued: f(z) = g(z) s((z - x_r)(z - z0)(z - conj z0)), real g, entire kernel
    x_r = 0.4375
    real_first = bool(size == 0 and isinstance(z0, complex) and kernel in ('sinc', 'expm1', 'sinc_half_sq')
                      and case['g'] in ('exp', 'poly', 'cos2', 'inv4') and form == 'native')

    def f(z):
        if real_first:
            # ((z - z0)(z - conj z0) written with real coefficients: real arithmetic, and a real dtype, at real points)
            return g(z) * s((z - x_r) * (z * z - 2.0 * z0.real * z + (z0.real ** 2 + z0.imag ** 2)))
        if two:
            return g(z) * s((z - z0) * (z - z1))
        return g(z) * s(z - z0)
    rec = Recorder(f, keep_values=True)
    centres = np.array([z0])
    if size:
        ctx.count('array_cases')
        zs = np.array([z0] * size, dtype=complex if isinstance(z0, complex) else float)
        regular = rng.random(size) < 0.5
        regular[int(rng.integers(0, size))] = False          # at least one singular entry, anywhere
        offs = rng.uniform(0.05, 0.2, size=size) * (1 if method == 'above' else -1)
        if case['seed'] % 3 == 0:
            # some of the regular points lie within 1e-10 .. 5e-9 (relative) of the singular one, on the side of approach: different
            # points all the same
            near = rng.random(size) < 0.4
            offs = np.where(near, 10.0 ** rng.uniform(-10, -8.3, size=size) * (1.0 + abs(z0)) * (1 if method == 'above' else -1), offs)
            ctx.count('regular_points_very_close_to_a_singular_one', int(np.sum(near & regular)))
        zs = np.where(regular, zs + offs, zs)
        if two:
            ia, ib = [int(v) for v in rng.choice(size, size=2, replace=False)]
            regular[ia] = regular[ib] = False
            zs[ia], zs[ib] = z0, z1
            second = rng.random(size) < 0.5
            second[ia], second[ib] = False, True
            zs = np.where(~regular & second, z1, zs)
            ctx.count('arrays_with_two_different_singular_points')
        centres = zs[~regular]
        zin = zs
        shapes = {4: [(2, 2)], 6: [(2, 3), (3, 2)], 8: [(2, 4), (4, 2), (2, 2, 2)], 9: [(3, 3)]}.get(size)
        if shapes and rng.random() < 0.7:
            zin = zs.reshape(shapes[int(rng.integers(0, len(shapes)))])
            if rng.random() < 0.4:
                zin = np.asfortranarray(zin)
                ctx.count('multidimensional_array_fortran_order')
            ctx.count('multidimensional_array_cases')
    else:
        zin, regular, zs = z0_given, np.array([False]), np.array([z0])
    L = Limit(rec, **kw)
    if real_first:
        ctx.count('object_used_at_a_real_singular_point_before')
        try:
            with np.errstate(all='ignore'):
                L.limit(x_r) if case['use_limit_method'] else L(x_r)
        except Exception:
            pass
        del rec.calls[:]
    z_then = np.array(zin, copy=True) if isinstance(zin, np.ndarray) else None
    try:
        with np.errstate(all='ignore'):
            if case['use_limit_method'] and not size:
                val, info = L.limit(zin)
            else:
                val, info = L(zin)
        if isinstance(zin, np.ndarray) and size:
            ctx.count('callers_array_unchanged_asserted')
            if np.ascontiguousarray(zin).tobytes() != np.ascontiguousarray(z_then).tobytes():
                ctx.reject('callers_array_modified', observed=np.ravel(zin)[:6], expected=np.ravel(z_then)[:6], path=path, method=method)
                return
    except Exception as exc:
        ctx.reject('limit_raised', observed='%s: %s' % (type(exc).__name__, str(exc)[:150]),
                   exc_type=type(exc).__name__, path=path, complex_z0=isinstance(z0, complex), kernel=kernel)
        return
    if size and np.shape(val) != np.shape(zin):
        ctx.reject('limit_result_shape', observed=list(np.shape(val)), expected=list(np.shape(zin)))
        return
    val = np.asarray(val).ravel()
    est = np.abs(np.asarray(info.error_estimate, dtype=float)).ravel()
    if len(val) != len(zs):
        ctx.reject('limit_result_size', observed=len(val), expected=len(zs))
        return
    # recorded evaluation points (all calls except the first, which is f at the requested points)
    pts = []
    for c in rec.calls[1:] if not (case['use_limit_method'] and not size) else rec.calls:
        pts.append(np.asarray(c.z1).ravel())
    if two and any(p_.size != centres.size for p_ in pts):
        ctx.count('skipped_two_point_array_evaluated_in_another_shape')
        pts = []
    offsets = np.concatenate([p_ - (centres if two else z0) for p_ in pts]) if pts else np.array([])
    if kernel in SING_DIST and offsets.size and np.max(np.abs(offsets)) * 4 > SING_DIST[kernel]:
        ctx.count('skipped_steps_too_close_to_kernel_singularity')
        return
    if kernel == 'sinc_sqrt' and offsets.size and np.max(np.abs(offsets)) > 50:
        ctx.count('skipped_large_steps_for_sqrt_kernel')
        return
    # side of approach (radial path)
    if path == 'radial' and offsets.size and not isinstance(z0, complex):
        ctx.count('side_asserted')
        re = np.real(offsets)
        if (method == 'above' and np.any(re <= 0)) or (method == 'below' and np.any(re >= 0)):
            ctx.reject('approach_from_the_wrong_side', observed=[float(np.min(re)), float(np.max(re))], expected=method,
                       method=method, path=path)
            return
    # spiral path: the approach really spirals (the recorded offsets do not share one direction)
    if path == 'spiral' and offsets.size > 2:
        ctx.count('spiral_direction_asserted')
        ang = np.angle(offsets.astype(complex))
        if float(np.max(np.abs(np.exp(1j * ang) - np.exp(1j * ang[0])))) < 1e-6:
            ctx.reject('spiral_path_is_a_straight_line', observed=[float(ang[0]), float(ang[-1])], path=path, method=method)
            return
    with np.errstate(all='ignore'):
        direct = np.asarray(f(np.asarray(zin))).ravel()
    for k in range(len(zs)):
        if regular[k] and not np.isfinite(direct[k]):
            # (f itself has no finite value at this point - e.g. a square-root kernel on the other side of its branch point: the
            # point is a singular one for the library, and not judged here)
            ctx.count('skipped_regular_point_where_f_is_not_finite')
            continue
        if regular[k]:
            ctx.count('regular_points_asserted')
            if np.array([val[k]]).astype(complex).tobytes() != np.array([direct[k]]).astype(complex).tobytes():
                ctx.reject('regular_point_value_changed', observed=complex(val[k]), expected=complex(direct[k]),
                           detail=dict(position=k), path=path, method=method)
                return
            continue
        ctx.count('limit_values_asserted')
        if two:
            gz0 = complex(g(zs[k]))
            ctx.count('two_point_limit_values_asserted')
        bound = K_EST * est[k if est.size > 1 else 0] + 1e-10 * abs(gz0)
        err = abs(complex(val[k]) - gz0)
        if not np.isfinite(err):
            err = math.inf
        ctx.maximum('limit_err/bound:%s' % kernel, err / bound, dict(case=case))
        ctx.maximum('limit_est/|g|:%s:%s' % (path, 'default_steps' if not opts else 'user_steps'),
                    float(est[k if est.size > 1 else 0]) / (abs(gz0) or 1.0), dict(case=case))
        if not err <= bound:
            ctx.reject('limit_value', observed=complex(val[k]), expected=gz0,
                       detail=dict(est=float(est[k if est.size > 1 else 0]), bound=bound, kernel=kernel, position=k,
                                   largest_step=float(np.max(np.abs(offsets))) if offsets.size else None),
                       path=path, method=method, kernel=kernel, order=order, complex_z0=isinstance(z0, complex))
            return
        if not opts and abs(gz0) <= 1e-6:
            ctx.count('usefulness_not_judged_where_the_limit_itself_is_zero')
        elif not opts:
            ctx.count('default_estimate_usefulness_asserted')
            e_k = float(est[k if est.size > 1 else 0])
            if not e_k <= USEFUL * abs(gz0):
                ctx.reject('default_configuration_reports_a_useless_estimate', observed=e_k, expected=USEFUL * abs(gz0),
                           detail=dict(value=complex(val[k]), g_z0=gz0, kernel=kernel), path=path, method=method, kernel=kernel)
                return
    if abs(gz0 - round(gz0.real)) > 1e-3:
        ctx.nontrivial((kernel, case['g'], method, path, isinstance(z0, complex), order))
    if len(ctx.samples) < 3:
        ctx.sample(dict(case=case, value=val[:3], g_z0=gz0, error_estimate=est[:3], evaluations=len(rec.calls)))


def classify(wit):
    return None


TECHNIQUE = ('runtime monitoring: contracts on Limit / Limit.limit / Residue returns against the closed-form limit g(z0), boundary '
             'recorder for the side of approach, the distance to kernel singularities and untouched regular points')
LEVEL_TEXT = ('exploration: every observed limit / residue is decided against g(z0) within K x the reported estimate; regular '
              'points bit for bit; approach side from the recorded evaluation points')
LEVEL_NOTE = 'g(z0) evaluated in binary64 (relative error ~1e-16); K = 1000 calibrated with >= 30x head-room'
