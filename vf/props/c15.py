"""C15 - fd_weights_all / fd_weights equal the exact Lagrange-derivative weights."""
from fractions import Fraction
import math

import numpy as np

from vf.oracle.exact import F, lagrange_derivative_weights, poly_eval, poly_deriv, to_float, EPS

ID = 'C15'
NSHARDS = dict(quick=8, thorough=16)
BUDGET = dict(quick=1600, thorough=60000)
ANCHORS = ['numdifftools.fornberg:_fd_weights_all', 'numdifftools.fornberg:fd_weights_all',
           'numdifftools.fornberg:fd_weights']
MIN_COUNTERS = dict(quick={'rows_asserted': 3000, 'poly_asserted': 1000, 'fd_weights_row_asserted': 1000},
                    thorough={'rows_asserted': 100000})
RULE = ('Node sets also as lists / tuples / ranges of Python ints with a spacing of 50..1e6; in half of the cases the full table of the same stencil has been requested before. ' 
        'node sets of size 2..14: uniform, random, clustered (u^3), permuted, one-sided, geometric, '
        'integer, huge-offset; x0 inside, outside or exactly on a node; every n < len(x) reachable '
        '(n drawn uniformly). distinct non-trivial = (size, kind, x0 placement, n) with non-uniform or '
        'unsorted nodes and n >= 1')
ASSUMPTIONS = ['rounding scaled by conditioning = C*(eps*m*max_j|w_kj| + D_k) per row k, D_k = measured change of the exact weights when nodes move by eps*spread; C=2048 = 30x the worst ratio (47.6) seen in 60000 node sets '
               '(Fornberg recursion: O(m) operations per weight)',
               'exact weights derived from the definition of the Lagrange basis in Fraction arithmetic']
C_ROW = 256.0
C_POLY = 64.0
KINDS = ['uniform', 'random', 'clustered', 'permuted', 'onesided', 'geometric', 'integer', 'offset', 'pyint_big', 'nearly_uniform', 'symmetric_any_order', 'tiny_scale']


def setup(ctx, mon):
    import numdifftools.fornberg  # noqa
    for a in ANCHORS:
        mon.watch(a)


def make_nodes(rng, kind, m):
    if kind == 'uniform':
        h = 10.0 ** rng.uniform(-3, 1)
        x = rng.uniform(-2, 2) + h * np.arange(m)
    elif kind == 'random':
        x = np.sort(rng.uniform(-1, 1, m)) * 10.0 ** rng.uniform(-2, 2)
    elif kind == 'clustered':
        x = np.sort(rng.uniform(-1, 1, m) ** 3)
    elif kind == 'permuted':
        x = rng.permutation(rng.uniform(-3, 3, m))
    elif kind == 'onesided':
        x = np.sort(rng.uniform(0, 1, m)) + 0.01
    elif kind == 'geometric':
        x = 10.0 ** rng.uniform(-2, 0) * rng.uniform(1.3, 3) ** np.arange(m)
        if rng.random() < 0.5:
            x = x[::-1].copy()
    elif kind == 'integer':
        x = rng.permutation(np.arange(-m, m + 1))[:m].astype(float)
    elif kind == 'pyint_big':
        # integer nodes with a large spacing (handed over as Python ints: products of node differences exceed 2**63)
        step = int(rng.choice([50, 100, 1000, 10 ** 4, 10 ** 6]))
        x = (int(rng.integers(-5, 6)) * step + step * np.arange(m) * int(rng.integers(1, 4))).astype(float)
        if rng.random() < 0.4:
            x = rng.permutation(x)
    elif kind == 'nearly_uniform':
        # an equidistant stencil around its centre with one or all nodes moved by 1e-9..1e-5 of the spacing: the weights
        # are those of the nodes as given, not of the ideal stencil they resemble
        h = 10.0 ** rng.uniform(-3, 1)
        x = rng.uniform(-2, 2) + h * (np.arange(m) - (m - 1) // 2)
        move = h * 10.0 ** rng.uniform(-9, -5.1) * rng.choice([-1.0, 1.0], size=m)
        if rng.random() < 0.6:
            keep = int(rng.integers(0, m))
            move[np.arange(m) != keep] = 0.0
        x = x + move
    elif kind == 'tiny_scale':
        # an ordinary non-uniform stencil in units of 1e-14 .. 1e-30 (and, less often, 1e+14 .. 1e+30): weights know no absolute scale
        # (the scale is kept where every exact weight, at most unit^-(m-1), is still far inside the floating-point range)
        emax = min(30.0, 230.0 / max(m - 1, 1))
        unit = 10.0 ** (float(rng.choice([-1.0, -1.0, -1.0, 1.0])) * rng.uniform(min(12.0, 0.6 * emax), emax))
        x = unit * np.cumsum(rng.choice([1.0, 1.5, 0.5, 2.0], size=m)) * float(rng.choice([-1.0, 1.0]))
        if rng.random() < 0.4:
            x = rng.permutation(x)
    elif kind == 'symmetric_any_order':
        # nodes placed exactly symmetrically about a centre (which cases() then uses as x0), listed in any order: by distance
        # from the centre, shuffled, descending - the weights belong to the nodes, not to their positions in the list
        c = float(np.round(rng.uniform(-2, 2), 2)) if rng.random() < 0.7 else 0.0
        d = np.cumsum(rng.choice([0.25, 0.5, 1.0, 0.125], size=m // 2)) * float(rng.choice([1.0, 0.5, 2.0]))
        pts = [c + v for v in d] + [c - v for v in d] + ([c] if m % 2 else [])
        x = np.array(pts)
        order = int(rng.integers(0, 3))
        if order == 0:
            x = x[np.argsort(np.abs(x - c), kind='stable')]
        elif order == 1:
            x = rng.permutation(x)
        else:
            x = np.sort(x)[::-1].copy()
    else:  # offset: well separated nodes far from the origin
        x = 1000.0 + np.sort(rng.uniform(-1, 1, m))
    x = np.asarray(x, dtype=float)
    # distinct and not closer than 1e-6 relative to the spread (conditioning is scaled for,
    # but coincident nodes are outside the property)
    if len(np.unique(x)) != m:
        return None
    spread = np.ptp(x)
    if np.min(np.diff(np.sort(x))) < 1e-6 * spread:
        return None
    return x


def cases(rng, tier, shard, nshards):
    for j in range(2 if tier == 'quick' else 10):
        yield dict(kind='threads', m=int(rng.integers(4, 9)), n=int(rng.integers(0, 4)), nthreads=int(rng.choice([2, 4, 8])), pseed=int(rng.integers(0, 2 ** 31)))
    n = BUDGET[tier] // nshards
    i = 0
    while i < n:
        kind = KINDS[(i + shard) % len(KINDS)]
        m = int(rng.integers(2, 15))
        if kind == 'nearly_uniform' and rng.random() < 0.8:
            m = int(rng.choice([3, 5, 7, 9]))
        x = make_nodes(rng, kind, m)
        if x is None:
            continue
        m = len(x)
        lo, hi = x.min(), x.max()
        place = ['inside', 'outside', 'node', 'far'][int(rng.integers(0, 4))]
        if place == 'inside':
            x0 = float(rng.uniform(lo, hi))
        elif place == 'outside':
            x0 = float(hi + rng.uniform(0.05, 1.0) * (hi - lo)) if rng.random() < 0.5 else \
                float(lo - rng.uniform(0.05, 1.0) * (hi - lo))
        elif place == 'far':
            # the expansion point much farther from the nodes than they are from each other (the weights are still well
            # conditioned: they depend on the node differences, which the recursion forms exactly)
            x0 = float((hi if rng.random() < 0.5 else lo) + rng.choice([-1, 1]) * (hi - lo) * 10.0 ** rng.uniform(1, 4))
        else:
            x0 = float(x[int(rng.integers(0, m))])
        nder = int(rng.integers(0, m))
        if kind == 'symmetric_any_order':
            x0 = float(0.5 * (lo + hi))
            place = 'centre_of_symmetry'
        if kind == 'nearly_uniform':
            centre = float(np.sort(x)[(m - 1) // 2])
            u = rng.random()
            x0 = centre if u < 0.5 else centre + float(np.ptp(x)) / (m - 1) * 10.0 ** rng.uniform(-10, -6) * float(rng.choice([-1, 1]))
            place = 'near_centre'
            if rng.random() < 0.8:
                nder = min(int(rng.integers(1, 3)), m - 1)
        yield dict(kind=kind, x=[float(v) for v in x], x0=x0, n=nder, place=place,
                   as_list=bool(rng.random() < 0.3), pseed=int(rng.integers(0, 2 ** 31)))
        i += 1


def run_threads(case, ctx):
    """fd_weights / fd_weights_all are functions of their arguments: threads asking for weights of stencils of the same size at the
    same time get, bit for bit, what each gets alone."""
    import sys
    import threading
    from numdifftools.fornberg import fd_weights_all, fd_weights
    rng = np.random.default_rng(case['pseed'])
    m, n = case['m'], min(case['n'], case['m'] - 1)
    jobs = [(np.sort(rng.uniform(-1, 1, m)) * float(10.0 ** rng.uniform(-1, 1)), float(rng.uniform(-1, 1))) for _ in range(case['nthreads'])]
    alone = [(np.array(fd_weights_all(xs, x0, n), copy=True), np.array(fd_weights(xs, x0, n), copy=True)) for xs, x0 in jobs]
    bad = []
    old = sys.getswitchinterval()
    sys.setswitchinterval(1e-6)
    start = threading.Barrier(len(jobs))

    def worker(k):
        start.wait(30)
        for _ in range(40):
            try:
                a_, b_ = np.asarray(fd_weights_all(jobs[k][0], jobs[k][1], n)), np.asarray(fd_weights(jobs[k][0], jobs[k][1], n))
                if a_.tobytes() != alone[k][0].tobytes() or b_.tobytes() != alone[k][1].tobytes():
                    bad.append((k, a_[-1][:3]))
            except Exception as exc:
                bad.append((k, repr(exc)[:100]))
    ths = [threading.Thread(target=worker, args=(k,)) for k in range(len(jobs))]
    try:
        for th in ths:
            th.start()
        for th in ths:
            th.join(120)
    finally:
        sys.setswitchinterval(old)
    ctx.count('concurrent_rounds')
    ctx.count('concurrent_results_compared', 40 * len(jobs))
    if bad:
        ctx.reject('weights_differ_when_other_threads_ask_at_the_same_time', observed=bad[0][1], expected=alone[bad[0][0]][0][-1][:3],
                   detail=dict(threads=len(jobs), m=m, n=n, differing=len(bad)))
        return
    ctx.nontrivial(('threads', m, n, case['nthreads']))


def run_case(case, ctx):
    if case.get('kind') == 'threads':
        return run_threads(case, ctx)
    from numdifftools.fornberg import fd_weights_all, fd_weights
    x = np.array(case['x'])
    x0, n = case['x0'], case['n']
    m = len(x)
    xin = list(case['x']) if case['as_list'] else x.copy()
    if case['kind'] == 'pyint_big':
        form = ['list', 'tuple', 'range'][case['pseed'] % 3]
        ints = [int(v) for v in case['x']]
        d = ints[1] - ints[0] if m > 1 else 1
        regular = m > 1 and d != 0 and all(b - a == d for a, b in zip(ints[:-1], ints[1:]))
        xin = range(ints[0], ints[-1] + (1 if d > 0 else -1), d) if (form == 'range' and regular) else tuple(ints) if form == 'tuple' else ints
        if float(x0).is_integer() and case['pseed'] % 2:
            x0 = int(x0)
        ctx.count('python_int_nodes_cases')
    try:
        if case['pseed'] % 2 and n < m - 1:
            # history: the full table for the same stencil has been asked for before (a higher order first)
            ctx.count('stencil_seen_before_with_higher_order')
            fd_weights_all(xin, x0, m - 1)
        W = fd_weights_all(xin, x0, n)
        W_then = np.array(W, copy=True)
        w_n = fd_weights(xin, x0, n)
        w_then = np.array(w_n, copy=True)
        # results the caller still holds must not change when the library is asked for other weights of the same shape
        fd_weights_all([float(v) + 0.37 for v in case['x']], float(x0) - 0.21, n)
        fd_weights([float(v) * 1.5 for v in case['x']], float(x0) + 0.4, n)
        ctx.count('earlier_results_checked_after_later_calls')
        if np.asarray(W).tobytes() != W_then.tobytes() or np.asarray(w_n).tobytes() != w_then.tobytes():
            ctx.reject('returned_weights_changed_by_a_later_call', observed=np.asarray(W)[-1], expected=W_then[-1])
            return
        if isinstance(W, np.ndarray) and isinstance(w_n, np.ndarray) and W.flags.writeable and w_n.flags.writeable:
            # ... and what the caller does to the arrays it was given (scaling the weights in place) must not reach the library:
            # the same request again gives the same weights
            W *= 0.5
            w_n += 1.0
            W_again, w_again = fd_weights_all(xin, x0, n), fd_weights(xin, x0, n)
            ctx.count('same_request_repeated_after_the_caller_modified_its_result')
            if np.asarray(W_again).tobytes() != W_then.tobytes() or np.asarray(w_again).tobytes() != w_then.tobytes():
                ctx.reject('weights_depend_on_what_the_caller_did_to_an_earlier_result', observed=np.asarray(W_again)[-1], expected=W_then[-1],
                           detail=dict(n=n))
                return
            W, w_n = W_again, w_again
    except Exception as exc:
        ctx.reject('raised', observed=repr(exc))
        return
    if isinstance(xin, np.ndarray) and xin.tobytes() != x.tobytes():
        ctx.reject('input_modified')
        return
    W = np.asarray(W)
    if W.shape != (n + 1, m):
        ctx.reject('shape', observed=list(W.shape), expected=[n + 1, m])
        return
    if np.asarray(w_n).tobytes() != W[n].tobytes():
        ctx.reject('fd_weights_is_not_row_n', observed=np.asarray(w_n), expected=W[n])
        return
    ctx.count('fd_weights_row_asserted')
    exact = lagrange_derivative_weights(case['x'], x0, n)
    # conditioning of the node set: the recursion forms differences x[i]-x[v] and x[i]-x0 with
    # relative rounding eps/2, i.e. it effectively works on nodes displaced by <= eps*spread.
    # The induced change of the exact weights is measured, not estimated.
    prng = np.random.default_rng(case['pseed'] + 1)
    # (the recursion only ever forms x[i] - x[v] and x[i] - x0, each with a relative rounding of eps/2: what it effectively
    # works on are nodes displaced by a fraction eps of their distance to the nearest other node or to x0 - not by eps times
    # the whole spread, which would also excuse an implementation that shifts or rescales the nodes before differencing)
    xs_sorted = np.sort(x)
    gaps = {}
    for v in x:
        others = np.abs(np.concatenate([xs_sorted[xs_sorted != v] - v, [x0 - v] if x0 != v else []]))
        gaps[float(v)] = float(np.min(others)) if others.size else 1.0
    dev = [[Fraction(0)] * m for _ in range(n + 1)]
    for _ in range(3):
        xp = [float(v) + float(sg) * 2 * EPS * gaps[float(v)] for v, sg in zip(case['x'], prng.choice([-1.0, 1.0], m))]
        pert = lagrange_derivative_weights(xp, x0, n)
        for k in range(n + 1):
            for j in range(m):
                dev[k][j] = max(dev[k][j], abs(pert[k][j] - exact[k][j]))
    worst, worst_at = 0.0, None
    for k in range(n + 1):
        row = exact[k]
        scale = max(to_float(abs(v)) for v in row)
        bound = C_ROW * (EPS * m * scale + to_float(max(dev[k])))
        ctx.count('rows_asserted')
        for j in range(m):
            wkj = float(W[k, j])
            if not math.isfinite(wkj):
                ctx.reject('nonfinite_weight', observed=wkj, detail=dict(k=k, j=j))
                return
            err = to_float(abs(F(wkj) - row[j]))
            ratio = err / bound if bound > 0 else (0.0 if err == 0 else math.inf)
            if ratio > worst:
                worst, worst_at = ratio, dict(k=k, j=j, observed=wkj, expected=to_float(row[j]),
                                              err=err, bound=bound)
        # rows k >= 1 sum to zero, row 0 sums to one, within the same conditioning bound
        ssum = sum(F(float(v)) for v in W[k])
        target = 1 if k == 0 else 0
        ratio = to_float(abs(ssum - target)) / (bound * m) if bound > 0 else 0.0
        ctx.maximum('row_sum_err/bound', ratio)
        if not ratio <= 1:
            ctx.reject('row_sum', observed=to_float(ssum), expected=target, detail=dict(k=k))
            return
    ctx.maximum('weight_err/bound(C=%g)' % C_ROW, worst, dict(kind=case['kind'], m=m, n=n))
    if not worst <= 1:
        ctx.reject('weight_differs_from_exact_lagrange', observed=worst_at['observed'],
                   expected=worst_at['expected'], detail=worst_at)
        return
    # functional view: apply to samples of a random polynomial of degree < m
    prng = np.random.default_rng(case['pseed'])
    deg = int(prng.integers(0, m))
    coefs = [int(c) for c in prng.integers(-9, 10, deg + 1)]
    shift = F(float(x.mean()))
    samples = [poly_eval(coefs, F(v) - shift) for v in case['x']]
    for k in range(n + 1):
        val = sum(F(float(W[k, j])) * samples[j] for j in range(m))
        ref = poly_eval(poly_deriv(coefs, k), F(x0) - shift)
        scale = sum(abs(exact[k][j] * samples[j]) for j in range(m))
        bound = C_POLY * (EPS * m * to_float(scale) +
                          to_float(sum(dev[k][j] * abs(samples[j]) for j in range(m))))
        ctx.count('poly_asserted')
        ctx.maximum('poly_err/bound(C=%g)' % C_POLY, to_float(abs(val - ref)) / bound if bound > 0 else 0.0)
        if not to_float(abs(val - ref)) <= bound:
            ctx.reject('polynomial_derivative_not_reproduced', observed=to_float(val), expected=to_float(ref),
                       detail=dict(k=k, degree=deg, bound=bound))
            return
    srt = bool(np.all(np.diff(x) > 0))
    uniform = case['kind'] in ('uniform', 'integer') and srt
    if n >= 1 and not uniform:
        ctx.nontrivial((m, case['kind'], case['place'], n))
    if len(ctx.samples) < 2:
        ctx.sample(dict(case=case, weights_row_n=W[n], exact_row_n=[to_float(v) for v in exact[n]]))


def classify(wit):
    return None


TECHNIQUE = 'runtime monitoring: contract on fd_weights_all/fd_weights returns; exact-rational Lagrange oracle'
LEVEL_TEXT = ('exploration: every returned weight array is compared entry by entry with weights computed in '
              'exact rational arithmetic from the same float nodes, and applied to exact polynomial samples')
LEVEL_NOTE = 'trusts CPython Fraction arithmetic; conditioning-scaled rounding bound calibrated at 30x the worst unchanged-tree ratio'
