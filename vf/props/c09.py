"""C09 - results depend only on (function, point, configuration), not on history or threads.

History monitor: operations are recorded at the client boundary; the reference model is the
same (function, point, configuration) evaluated once in a *fresh interpreter* (one process
per reference).  Every call of every history, and every call made by concurrently running
threads under forced interleavings, must be bit-identical to its reference.
"""
import hashlib
import itertools
import json
import os
import subprocess
import sys
import threading
import time

import numpy as np

ID = 'C09'
NSHARDS = dict(quick=8, thorough=16)
BUDGET = dict(quick=320, thorough=20000)            # histories
THREAD_ROUNDS = dict(quick=48, thorough=2000)
ANCHORS = ['numdifftools.finite_difference:LogRule.rule',
           'numdifftools.step_generators:MinStepGenerator.step_generator_function',
           'numdifftools.core:Derivative.set_richardson_rule', 'numdifftools.core:Derivative._get_steps',
           'numdifftools.core:Derivative._derivative']
# also watched for yield injection, but reached only if the shard's pool draws the matching class and method (no reach requirement)
ALSO_WATCHED = ['numdifftools.finite_difference:JacobianDifferenceFunctions.increments',
                'numdifftools.finite_difference:JacobianDifferenceFunctions._central',
                'numdifftools.finite_difference:JacobianDifferenceFunctions._forward',
                'numdifftools.finite_difference:HessianDifferenceFunctions._central_even',
                'numdifftools.finite_difference:HessdiagDifferenceFunctions._central_even']
MIN_COUNTERS = dict(quick={'history_calls_compared': 1500, 'histories': 300, 'warm_cache_calls': 250,
                           'cold_cache_calls': 100, 'shared_generator_calls': 100, 'nested_calls_on_a_shared_generator_compared': 20, 'mutate_restore_ops': 100,
                           'threaded_calls_compared': 1200, 'thread_rounds': 40,
                           'distinct_interleavings': 30, 'fresh_interpreter_references': 150},
                    thorough={'history_calls_compared': 80000, 'thread_rounds': 1500})
RULE = ('per shard a pool of 12 Derivative configurations (function, method, n, order, step options; configurations 2k and 2k+1 share '
        'their step options so one generator instance can serve both) plus 6 Gradient / Jacobian / Hessdiag / Hessian configurations (dimension 2-3), x 2 points, each reference computed in its own fresh '
        'interpreter; histories of <= 12 operations from {construct, call, set n/order/method and restore (with a call in '
        'between), share a step generator, clear FD_RULES, pre-populate FD_RULES via other configurations, an object whose function raises after k evaluations, one array updated in place between calls, reuse at the '
        'other point}; threaded rounds: up to 16 threads with disjoint objects, forced switches (switchinterval 1e-6 and '
        'sleep(0) injected with p=0.3 at every line of the four anchored state-touching functions). distinct non-trivial = '
        'histories (hashed op sequence) containing >= 1 warm-cache call and >= 1 reused object whose reference differs from '
        'its predecessor\'s result')
ASSUMPTIONS = ['bit-identity across processes requires the same numpy/scipy build and single-threaded BLAS (OMP_NUM_THREADS=1)',
               'interleavings are forced at Python statement boundaries of the anchored functions; switches inside '
               'numpy/LAPACK C code are not controllable (and hold the GIL)',
               'the monitor log is appended under the GIL with sequence numbers from one itertools.count']

FUN_SRC = {
    'exp': 'np.exp(x)',
    'sin3': 'np.sin(3.0 * x)',
    'poly': 'x * x * x - 2.0 * x',
    'runge': '1.0 / (1.0 + x * x)',
    'tanh': 'np.tanh(x)',
    'expm1sq': 'np.expm1(x) * np.expm1(x)',
}
FUNS = {k: eval('lambda x: ' + v, {'np': np}) for k, v in FUN_SRC.items()}
MFUN_SRC = {   # scalar functions of a vector (Gradient, Hessdiag, Hessian) and vector functions (Jacobian)
    'rosen': '(1.0 - x[0]) ** 2 + 3.0 * (x[1] - x[0] * x[0]) ** 2 + 0.5 * x[-1] * x[0]',
    'expsin': 'np.exp(0.5 * x[0]) * np.sin(x[1]) + x[-1] * x[-1]',
    'vec3': 'np.array([x[0] * x[1], np.sin(x[0]) + x[-1] * x[-1], np.exp(0.3 * x[1])])',
    'vec2': 'np.array([x[0] - x[1] * x[-1], np.cos(x[0] * x[1])])',
}
MFUNS = {k: eval('lambda x: ' + v, {'np': np}) for k, v in MFUN_SRC.items()}
MULTI = [('Gradient', ['rosen', 'expsin']), ('Jacobian', ['vec3', 'vec2']), ('Hessdiag', ['rosen', 'expsin']),
         ('Hessian', ['rosen', 'expsin']), ('Jacobian', ['vec3', 'vec2']), ('Gradient', ['rosen', 'expsin'])]
HESSIAN_METHODS = ['central', 'central2', 'forward', 'backward', 'complex', 'multicomplex']
NPOOL = 18
REAL_METHODS = ['central', 'forward', 'backward']
ALL_METHODS = ['central', 'forward', 'backward', 'complex', 'multicomplex']


# ------------------------------------------------------------------------------ configuration pool
def make_pool(rng):
    pool = []
    for k in range(6):
        u = rng.random()
        if u < 0.35:
            step = dict(kind='default')
        elif u < 0.5:
            step = dict(kind='scalar', value=float(10.0 ** rng.uniform(-5, -1)))
        else:
            step = dict(kind=str(rng.choice(['min', 'max'])), opts=_step_opts(rng))
        first = None
        for j in range(2):
            method = str(rng.choice(ALL_METHODS if step['kind'] in ('default', 'scalar') else ALL_METHODS))
            n = int(rng.integers(1, 3)) if method == 'multicomplex' else int(rng.integers(1, 5))
            if method == 'complex' and rng.random() < 0.5:
                n = 1
            if j == 1 and step['kind'] in ('min', 'max'):
                # the twin configuration takes its steps from the other generator class (exact vs inexact steps) with the same
                # options, and in half of the cases has the same (method, n): both then want the same rule-cache entry
                step = dict(kind='max' if step['kind'] == 'min' else 'min', opts=dict(step['opts']))
                if rng.random() < 0.5 and first is not None:
                    method, n = first
            first = (method, n)
            pts = []
            psize = 0 if rng.random() < 0.6 else int(rng.integers(1, 4))      # both points of one shape (in-place updates)
            for _ in range(2):
                if psize == 0:
                    pts.append(float(np.round(rng.uniform(-2, 2) * (1 if rng.random() < 0.7 else 30), 3)))
                else:
                    pts.append([float(v) for v in np.round(rng.uniform(-2, 2, size=psize) * (1 if rng.random() < 0.7 else 30), 3)])
            if rng.random() < 0.12:
                n = 0
            cfg = dict(fun=str(rng.choice(list(FUNS))), method=method, n=n, order=int(rng.choice([1, 2, 3, 4, 6, 8])),
                       step=step, points=pts)
            # two alternative settings an object of this configuration may be switched to (and back)
            alts = []
            for _ in range(2):
                m2 = str(rng.choice(REAL_METHODS)) if method in REAL_METHODS else method
                n2 = int(rng.integers(0, 3)) if m2 == 'multicomplex' else int(rng.integers(0, 6))
                which = [str(v) for v in rng.permutation(['n', 'order', 'method'])[:int(rng.integers(1, 4))]]
                alts.append(dict(method=m2, n=n2, order=int(rng.choice([1, 2, 4, 6])), which=which,
                                 restore=[str(v) for v in rng.permutation(which)]))
            # ... and a third one that changes nothing but the order, to the other side of 4 (where the complex-step formula changes)
            o3 = int(rng.choice([1, 2, 3])) if cfg['order'] >= 4 else int(rng.choice([4, 6, 8]))
            alts.append(dict(method=method, n=n, order=o3, which=['order'], restore=['order']))
            cfg['alts'] = alts
            pool.append(cfg)
    # six configurations of the multivariate classes (they share module-level helpers and the rule cache with Derivative)
    for cls, funs in MULTI:
        dim = int(rng.integers(2, 4))
        u = rng.random()
        step = dict(kind='default') if u < 0.5 else dict(kind='scalar', value=float(10.0 ** rng.uniform(-4, -1.5))) if u < 0.75 \
            else dict(kind=str(rng.choice(['min', 'max'])), opts=_step_opts(rng))
        method = str(rng.choice(HESSIAN_METHODS if cls == 'Hessian' else ALL_METHODS))
        if cls == 'Hessian' and rng.random() < 0.6:
            method = str(rng.choice(['forward', 'backward']))       # (the one-sided Hessian kernels are their own code)
        pts = [[float(v) for v in np.round(rng.uniform(-1.5, 1.5, size=dim), 3)] for _ in range(2)]
        pool.append(dict(cls=cls, fun=str(rng.choice(funs)), method=method, n=None, order=int(rng.choice([2, 4])),
                         step=step, points=pts, alts=[]))
    return pool


def _step_opts(rng):
    o = {}
    if rng.random() < 0.6:
        o['base_step'] = float(10.0 ** rng.uniform(-5, -1))
    if rng.random() < 0.5:
        o['step_ratio'] = float(rng.choice([1.6, 2.0, 3.0, 4.0, 1.2, 1.3, 1.7]))      # (1.2, 1.3, 1.7: not invariant under make_exact)
    if rng.random() < 0.5:
        o['num_steps'] = int(rng.integers(3, 20))       # (below what some of the alternative (n, order) need: raised per call, not for good)
        o['num_steps_as'] = str(rng.choice(['int', 'int', 'np_int64', 'float', 'np_int32']))
    if rng.random() < 0.3:
        o['offset'] = int(rng.integers(-2, 3))
    return o


def _nest_fun(x):
    return np.exp(0.7 * x) + x ** 3


def _nested(nd, gen_in, gen_out, n_in, n_out):
    inner = nd.Derivative(_nest_fun, n=n_in, step=gen_in, method='central')
    outer = nd.Derivative(lambda x: inner(x), n=n_out, step=gen_out, method='central', full_output=True)
    v, info = outer(0.3)
    return [float(v).hex(), float(info.error_estimate).hex(), float(info.final_step).hex()]


def _sinc(z):
    return np.sin(z) / z


def build_step(nd, step):
    if step['kind'] == 'default':
        return None
    if step['kind'] == 'scalar':
        return step['value']
    cls = nd.MinStepGenerator if step['kind'] == 'min' else nd.MaxStepGenerator
    opts = dict(step['opts'])
    as_ = opts.pop('num_steps_as', 'int')
    if 'num_steps' in opts and as_ != 'int':
        # the same count handed over as a numpy integer or a float
        opts['num_steps'] = {'np_int64': np.int64, 'np_int32': np.int32, 'float': float}[as_](opts['num_steps'])
    return cls(**opts)


def build(nd, cfg, step_obj='build', wrap=None, form=0):
    """form: 0 keywords (the form every reference uses), 1 positional (fun, step, method, order, n), 2 keywords plus the documented
    default richardson_terms=2 given explicitly, 3 built without full_output and switched on afterwards"""
    st = build_step(nd, cfg['step']) if isinstance(step_obj, str) else step_obj
    cls = cfg.get('cls', 'Derivative')
    if cls == 'Limit':
        from numdifftools.limits import Limit
        return Limit(_sinc, step=st, method=cfg['method'], order=cfg['order'], full_output=True)
    if cls == 'Derivative':
        fun = FUNS[cfg['fun']] if wrap is None else wrap(FUNS[cfg['fun']])
        if form == 1:
            return nd.Derivative(fun, st, cfg['method'], cfg['order'], cfg['n'], full_output=True)
        if form == 2:
            return nd.Derivative(fun, step=st, method=cfg['method'], n=cfg['n'], order=cfg['order'], full_output=True,
                                 richardson_terms=2)
        if form == 3:
            d = nd.Derivative(fun, step=st, method=cfg['method'], n=cfg['n'], order=cfg['order'])
            d.full_output = True
            return d
        return nd.Derivative(fun, step=st, method=cfg['method'], n=cfg['n'], order=cfg['order'], full_output=True)
    fun = MFUNS[cfg['fun']] if wrap is None else wrap(MFUNS[cfg['fun']])
    kw = dict(step=st, method=cfg['method'], full_output=True)
    if cls != 'Hessian':
        kw['order'] = cfg['order']
    return getattr(nd, cls)(fun, **kw)


def encode(val, info):
    """Raw bytes of everything returned (value, f_value, error_estimate, final_step, index)."""
    parts = [np.asarray(val)] + [np.asarray(v) for v in info]
    h = hashlib.blake2b(digest_size=12)
    for p in parts:
        h.update(str(p.shape).encode() + str(p.dtype).encode() + np.ascontiguousarray(p).tobytes())
    return h.hexdigest()


def call(dobj, x):
    with np.errstate(all='ignore'):
        try:
            val, info = dobj(np.asarray(x) if isinstance(x, list) else x)
        except Exception as exc:      # the exception (type + message) is then the observable result
            return 'EXC:%s:%s' % (type(exc).__name__, str(exc)[:80])
    return encode(val, info)


# ------------------------------------------------------------------------------ fresh-interpreter reference
def reference_main(argv):
    import warnings
    warnings.simplefilter('ignore')
    cfg = json.loads(argv[0])
    k = int(argv[1])
    import numdifftools as nd
    print('REF ' + call(build(nd, cfg), cfg['points'][k]))


def fresh_reference(cfg, k):
    p = subprocess.run([sys.executable, '-B', '-c',
                        'import sys; from vf.props.c09 import reference_main; reference_main(sys.argv[1:])',
                        json.dumps(cfg), str(k)], capture_output=True, text=True, timeout=300)
    for ln in p.stdout.splitlines():
        if ln.startswith('REF '):
            return ln[4:].strip()
    raise RuntimeError('reference process failed: ' + p.stderr[-400:])


# ------------------------------------------------------------------------------ monitors
class RecordingDict(dict):
    """Replacement for finite_difference.FD_RULES: counts hits / misses and checks that a value stored under a
    key is never overwritten by different bytes."""

    def __init__(self, ctx):
        dict.__init__(self)
        self.ctx = ctx
        self.hits = self.misses = self.inserts = 0
        self.sigs = {}
        self.lock = threading.Lock()
        self.last_was_hit = {}

    def get(self, key, default=None):
        v = dict.get(self, key, default)
        with self.lock:
            if v is None:
                self.misses += 1
            else:
                self.hits += 1
            self.last_was_hit[threading.get_ident()] = v is not None
        return v

    def __setitem__(self, key, value):
        sig = np.ascontiguousarray(value).tobytes()
        with self.lock:
            self.inserts += 1
            old = self.sigs.get(key)
            if old is not None and old != sig:
                self.ctx.reject('cache_value_overwritten_by_different_bytes', detail=dict(key=repr(key)))
            self.sigs[key] = sig
        dict.__setitem__(self, key, value)

    def clear(self):
        with self.lock:
            self.sigs.clear()
        dict.clear(self)


_S = {}


def setup(ctx, mon):
    import numdifftools  # noqa
    from numdifftools import finite_difference as fdm
    _S['cache'] = RecordingDict(ctx)
    fdm.FD_RULES = _S['cache']
    _S['mon'] = mon
    _S['ctr'] = itertools.count()
    _S['log'] = []
    for a in ANCHORS + ALSO_WATCHED:
        mon.watch(a, lines=True)


def cases(rng, tier, shard, nshards):
    pool = make_pool(rng)
    yield dict(kind='pool', pool=pool)
    # every other configuration of the pool once as "constructed, copied (shallow / deep) before its first call, called"
    for i_cfg in range(NPOOL):
        if (i_cfg + shard) % 2 == 0:
            yield dict(kind='history', ops=[['construct', i_cfg, int(rng.integers(0, 4))], ['copy_object', i_cfg, int((i_cfg // 2) % 3 == 2)],
                                            ['call', i_cfg, 0], ['call', i_cfg, 1]])
    for i_cfg in range(NPOOL):
        if (i_cfg + shard) % 2 == 1 and pool[i_cfg].get('cls', 'Derivative') == 'Derivative' and pool[i_cfg]['step']['kind'] in ('default', 'scalar'):
            yield dict(kind='history', ops=[['step_setter', i_cfg], ['call', i_cfg, 1], ['step_setter', i_cfg]])
    for i in range(BUDGET[tier] // nshards):
        ops = []
        for _ in range(int(rng.integers(4, 13))):
            u = rng.random()
            i_cfg = int(rng.integers(0, NPOOL))
            if u < 0.15:
                ops.append(['construct', i_cfg, int(rng.integers(0, 4))])
            elif u < 0.18:
                ops.append(['copy_object', i_cfg, int(rng.integers(0, 2))])
            elif u < 0.55:
                ops.append(['call', i_cfg, int(rng.integers(0, 2))])
            elif u < 0.67:
                ops.append(['mutate_restore', i_cfg, int(rng.integers(0, 3))])
            elif u < 0.77:
                ops.append(['share', 2 * int(rng.integers(0, 6))])
            elif u < 0.835:
                ops.append(['clear_cache'])
            elif u < 0.85:
                ops.append(['step_setter', i_cfg])
            elif u < 0.88:
                ops.append(['prepopulate', [int(v) for v in rng.integers(0, NPOOL, size=3)]])
            elif u < 0.96:
                ops.append(['prepopulate_all_parities'])
            elif u < 0.975:
                ops.append(['reuse_other_point', i_cfg])
            elif u < 0.99:
                ops.append(['inplace_update', i_cfg])
            else:
                ops.append(['raise_midway', i_cfg, int(rng.integers(1, 12))])
            if u >= 0.55 and u < 0.67 and i_cfg >= 12:
                ops[-1] = ['raise_midway', i_cfg, int(rng.integers(1, 12))]    # (the setters are exercised on Derivative only)
        yield dict(kind='history', ops=ops)
    rounds = THREAD_ROUNDS[tier] // nshards
    for r in range(rounds):
        yield dict(kind='threads', nthreads=int(rng.choice([2, 4, 8, 16])), seed=int(rng.integers(0, 2 ** 31)),
                   calls_per_thread=int(rng.integers(4, 9)))


def _ref(ctx, i, k):
    key = (i, k)
    refs = _S['refs']
    if key not in refs:
        refs[key] = fresh_reference(_S['pool'][i], k)
        ctx.count('fresh_interpreter_references')
    return refs[key]


def _compare(ctx, where, i, k, got, extra=None):
    ref = _ref(ctx, i, k)
    if got != ref:
        cfg = _S['pool'][i]
        ctx.reject('result_differs_from_fresh_interpreter_evaluation', observed=got, expected=ref,
                   detail=dict(where=where, config=cfg, point=cfg['points'][k], extra=extra),
                   where=where)
        return False
    return True


def run_case(case, ctx):
    import numdifftools as nd
    from numdifftools import finite_difference as fdm
    kind = case['kind']
    if kind == 'pool':
        _S['pool'] = case['pool']
        _S['refs'] = {}
        if len(ctx.samples) < 1:
            ctx.sample(dict(pool_first_configs=case['pool'][:3]))
        return
    pool = _S['pool']
    cache = _S['cache']
    if kind == 'history':
        ctx.count('histories')
        objs, last_point, last_result, arrs = {}, {}, {}, {}
        had_warm = had_reuse_diff = False
        for op in case['ops']:
            name = op[0]
            if name == 'construct':
                objs[op[1]] = build(nd, pool[op[1]], form=(op[2] if len(op) > 2 else 0))
                ctx.count('constructed_in_form:%d' % (op[2] if len(op) > 2 else 0))
            elif name == 'copy_object':
                # the object in use is replaced by a (deep) copy of itself: a copy is the same configuration
                import copy
                if op[1] in objs:
                    try:
                        objs[op[1]] = copy.deepcopy(objs[op[1]]) if op[2] else copy.copy(objs[op[1]])
                        ctx.count('object_copies')
                    except Exception as exc:
                        ctx.count('object_copy_raised:%s' % type(exc).__name__)
            elif name in ('call', 'reuse_other_point'):
                i = op[1]
                if i not in objs:
                    objs[i] = build(nd, pool[i])
                k = op[2] if name == 'call' else 1 - last_point.get(i, 0)
                h0 = cache.hits
                pt = pool[i]['points'][k]
                if isinstance(pt, list):
                    # the caller keeps one array per point and hands that same array to every call at the point
                    if (i, k) not in arrs:
                        arrs[(i, k)] = np.array(pt, dtype=float)
                    got = call(objs[i], arrs[(i, k)])
                    ctx.count('callers_array_unchanged_asserted')
                    if arrs[(i, k)].tobytes() != np.array(pt, dtype=float).tobytes():
                        ctx.reject('callers_array_modified', observed=arrs[(i, k)], expected=pt, detail=dict(config=pool[i]))
                        return
                else:
                    got = call(objs[i], pt)
                warm = cache.hits > h0
                ctx.count('warm_cache_calls' if warm else 'cold_cache_calls')
                ctx.count('history_calls_compared')
                had_warm = had_warm or warm
                if i in last_result and last_result[i] != _ref(ctx, i, k):
                    had_reuse_diff = True
                if not _compare(ctx, 'history', i, k, got, extra=dict(ops=case['ops'])):
                    return
                last_point[i], last_result[i] = k, got
            elif name == 'mutate_restore':
                i, a = op[1], op[2]
                cfg = pool[i]
                alt = cfg['alts'][a]
                if i not in objs:
                    objs[i] = build(nd, cfg)
                d = objs[i]
                ctx.count('mutate_restore_ops')
                # only the attributes named in alt['which'] are set (in that order), and later restored in alt['restore'] order:
                # a setter that forgets to invalidate derived state is not rescued by a neighbouring setter that does
                switched = dict(method=cfg['method'], n=cfg['n'], order=cfg['order'])
                try:
                    for attr in alt['which']:
                        if attr == 'n' and switched['method'] == 'multicomplex' and alt['n'] > 2:
                            continue
                        if attr == 'method' and alt['method'] == 'multicomplex' and switched['n'] > 2:
                            continue
                        setattr(d, attr, alt[attr])
                        switched[attr] = alt[attr]
                    got_alt = call(d, cfg['points'][0])
                finally:
                    for attr in alt['restore']:
                        setattr(d, attr, cfg[attr])
                # the switched object is the configuration (fun, alt, step): judged against its own fresh reference
                akey = ('alt', i, a)
                if akey not in _S['refs']:
                    acfg = dict(cfg, **switched)
                    _S['refs'][akey] = fresh_reference(acfg, 0)
                    ctx.count('fresh_interpreter_references')
                ctx.count('history_calls_compared')
                if got_alt != _S['refs'][akey]:
                    ctx.reject('result_differs_from_fresh_interpreter_evaluation', observed=got_alt, expected=_S['refs'][akey],
                               detail=dict(where='after_setting_n_order_method', config=cfg, switched_to=switched, set_order=alt['which'],
                                           extra=dict(ops=case['ops'])), where='after_setting_n_order_method')
                    return
                got = call(d, cfg['points'][0])
                ctx.count('history_calls_compared')
                if not _compare(ctx, 'after_mutate_restore', i, 0, got, extra=dict(ops=case['ops'])):
                    return
                last_point[i], last_result[i] = 0, got
            elif name == 'share':
                i, j = op[1], op[1] + 1
                if pool[i]['step']['kind'] not in ('min', 'max'):
                    continue
                gen = build_step(nd, pool[i]['step'])
                twin = dict(pool[j], step=pool[i]['step'])        # configuration j on i's generator (its own is of the other class)
                oi, oj = build(nd, pool[i], gen), build(nd, twin, gen)
                objs[i] = oi
                for (q, k) in ((i, 0), (j, 0), (i, 1), (j, 1), (i, 0)):
                    ctx.count('shared_generator_calls')
                    ctx.count('history_calls_compared')
                    if q == i:
                        got = call(oi, pool[i]['points'][k])
                        if not _compare(ctx, 'shared_step_generator', i, k, got, extra=dict(ops=case['ops'])):
                            return
                        last_point[i], last_result[i] = k, got
                    else:
                        got = call(oj, twin['points'][k])
                        tkey = ('share_twin', j, k)
                        if tkey not in _S['refs']:
                            _S['refs'][tkey] = fresh_reference(twin, k)
                            ctx.count('fresh_interpreter_references')
                        if got != _S['refs'][tkey]:
                            ctx.reject('result_differs_from_fresh_interpreter_evaluation', observed=got, expected=_S['refs'][tkey],
                                       detail=dict(where='shared_step_generator', config=twin, point=twin['points'][k],
                                                   extra=dict(ops=case['ops'])), where='shared_step_generator')
                            return
                # ... and a third object on the same generator instance: configuration i with another order (same method and
                # n: whatever the generator remembers per (method, n) must not be served to a different order)
                other = [o for o in (1, 2, 3, 4, 6, 8) if o != pool[i]['order']][(i + len(case['ops'])) % 5]
                acfg = dict(pool[i], order=other)
                akey = ('share_alt', i, other)
                if akey not in _S['refs']:
                    _S['refs'][akey] = fresh_reference(acfg, 0)
                    ctx.count('fresh_interpreter_references')
                got = call(build(nd, acfg, gen), acfg['points'][0])
                ctx.count('shared_generator_calls')
                ctx.count('history_calls_compared')
                if got != _S['refs'][akey]:
                    ctx.reject('result_differs_from_fresh_interpreter_evaluation', observed=got, expected=_S['refs'][akey],
                               detail=dict(where='shared_step_generator_other_order', config=acfg, extra=dict(ops=case['ops'])),
                               where='shared_step_generator_other_order')
                    return
                # ... and yet another object is merely *constructed* on the shared generator, with step options given next to it (the
                # generator is the caller's object: nobody's constructor retunes it); configuration i is then evaluated again
                try:
                    nd.Derivative(FUNS[sorted(FUNS)[0]], step=gen, num_steps=3, step_ratio=1.37, offset=2, num_extrap=1, scale=7.0)
                except Exception:
                    pass
                got = call(oi, pool[i]['points'][0])
                ctx.count('shared_generator_calls')
                ctx.count('history_calls_compared')
                if not _compare(ctx, 'shared_generator_after_another_object_was_built_on_it_with_options', i, 0, got, extra=dict(ops=case['ops'])):
                    return
                last_point[i], last_result[i] = 0, got
                # ... and a Limit on the same generator instance, right after the derivative objects used it (a step generator is a
                # step generator: Limit accepts it, and what the derivative objects left in it is none of its business)
                lcfg = dict(cls='Limit', fun='sinc', method='above', n=None, order=4, step=pool[i]['step'], points=[0.0])
                lkey = ('share_limit', i)
                if lkey not in _S['refs']:
                    _S['refs'][lkey] = fresh_reference(lcfg, 0)
                    ctx.count('fresh_interpreter_references')
                got = call(build(nd, lcfg, gen), 0.0)
                ctx.count('shared_generator_calls')
                ctx.count('history_calls_compared')
                if got != _S['refs'][lkey]:
                    ctx.reject('result_differs_from_fresh_interpreter_evaluation', observed=got, expected=_S['refs'][lkey],
                               detail=dict(where='limit_on_a_generator_shared_with_derivative_objects', config=lcfg, extra=dict(ops=case['ops'])),
                               where='limit_on_a_generator_shared_with_derivative_objects')
                    return
                # ... and nested use: the function differentiated by one object on the generator is itself a derivative object on the
                # same generator instance (d/dx of d2/dx2 and the other way round; with the generator's default ratio the two use
                # different ratios), so the inner object runs *during* the outer call.  Same steps, same result as with two private
                # generators of the same options.
                drop = ('step_ratio',) if (i + len(case['ops'])) % 2 == 0 else ()
                nst = dict(pool[i]['step'], opts={k_: v_ for k_, v_ in pool[i]['step']['opts'].items() if k_ not in drop})
                for (n_in, n_out) in ((2, 1), (1, 2)):
                    gs = build_step(nd, nst)
                    try:
                        with np.errstate(all='ignore'):
                            got = _nested(nd, gs, gs, n_in, n_out)
                            exp = _nested(nd, build_step(nd, nst), build_step(nd, nst), n_in, n_out)
                    except Exception as exc:
                        ctx.reject('nested_use_raised', observed=repr(exc)[:200], detail=dict(step=nst, n_in=n_in, n_out=n_out))
                        return
                    ctx.count('shared_generator_calls')
                    ctx.count('nested_calls_on_a_shared_generator_compared')
                    if got != exp:
                        ctx.reject('result_differs_between_shared_and_private_generators', observed=got, expected=exp,
                                   detail=dict(where='nested_use_of_a_shared_generator', step=nst, n_inner=n_in, n_outer=n_out,
                                               extra=dict(ops=case['ops'])), where='nested_use_of_a_shared_generator')
                        return
            elif name == 'step_setter':
                # a bare numeric step is assigned through the `step` property of *another* object; then this configuration's own step
                # (None or its number) is assigned bare to a new object of it: the same result as when it is given to the constructor
                i = op[1]
                cfg = pool[i]
                if cfg.get('cls', 'Derivative') != 'Derivative' or cfg['step']['kind'] not in ('default', 'scalar'):
                    continue
                try:
                    other_ = nd.Derivative(FUNS[cfg['fun']])
                    other_.step = 0.0123
                    with np.errstate(all='ignore'):
                        other_(0.4)
                except Exception:
                    pass
                d = build(nd, cfg)
                d.step = build_step(nd, cfg['step'])
                objs[i] = d
                ctx.count('step_assigned_through_the_setter')
                for k in (0, 1):
                    got = call(d, cfg['points'][k])
                    ctx.count('history_calls_compared')
                    if not _compare(ctx, 'after_step_was_assigned_through_the_setter', i, k, got, extra=dict(ops=case['ops'])):
                        return
                    last_point[i], last_result[i] = k, got
            elif name == 'inplace_update':
                # the caller keeps one array object, evaluates at it, updates it in place and evaluates again (an optimisation
                # loop): the second result is that of the new point, whatever the object remembers of the first call
                i = op[1]
                if i not in objs:
                    objs[i] = build(nd, pool[i])
                arr = np.array(pool[i]['points'][0], dtype=float)
                ctx.count('inplace_update_ops')
                for k in (0, 1, 0):
                    arr[...] = np.asarray(pool[i]['points'][k], dtype=float)
                    got = call(objs[i], arr)
                    ctx.count('history_calls_compared')
                    if not _compare(ctx, 'same_array_updated_in_place', i, k, got, extra=dict(ops=case['ops'])):
                        return
                    last_point[i], last_result[i] = k, got
            elif name == 'raise_midway':
                # another object of the same configuration whose function fails after a few evaluations: whatever the
                # aborted call left behind (module-level work arrays, caches, generator state) must not reach later calls
                i, after = op[1], op[2]
                left = [after]

                def failing(fn, left=left):
                    def g(x):
                        left[0] -= 1
                        if left[0] < 0:
                            raise RuntimeError('user function failed')
                        return fn(x)
                    return g
                ctx.count('raise_midway_ops')
                try:
                    call(build(nd, pool[i], wrap=failing), pool[i]['points'][0])
                except Exception:
                    pass
            elif name == 'clear_cache':
                fdm.FD_RULES.clear()
                ctx.count('cache_clears')
            elif name == 'prepopulate_all_parities':
                # fill the rule cache with every parity class at several (ratio, num_terms): a key collision between
                # classes would then serve a wrong rule to the configurations called afterwards
                ctx.count('prepopulate_all_parities_ops')
                for ratio in (1.6, 2.0, 3.0, 4.0):
                    for (m_, n_, o_) in (('forward', 1, 1), ('forward', 1, 2), ('forward', 2, 2), ('backward', 2, 3),
                                         ('central', 1, 2), ('central', 1, 4), ('central', 3, 4), ('central', 2, 2),
                                         ('central', 2, 6), ('complex', 1, 2), ('complex', 1, 8), ('complex', 5, 4),
                                         ('complex', 5, 8), ('complex', 2, 4), ('complex', 2, 8), ('complex', 3, 4),
                                         ('complex', 7, 8), ('complex', 4, 4), ('complex', 4, 8), ('complex', 6, 8)):
                        try:
                            with np.errstate(all='ignore'):
                                nd.Derivative(np.exp, step=nd.MinStepGenerator(base_step=0.1, step_ratio=ratio,
                                                                                num_steps=14),
                                              method=m_, n=n_, order=o_)(0.5)
                        except Exception:
                            pass
            elif name == 'prepopulate':
                for q in op[1]:
                    got = call(build(nd, pool[q]), pool[q]['points'][0])
                    ctx.count('history_calls_compared')
                    if not _compare(ctx, 'prepopulate', q, 0, got, extra=dict(ops=case['ops'])):
                        return
        if had_warm and had_reuse_diff:
            ctx.nontrivial(json.dumps(case['ops']))
        if len(ctx.samples) < 3:
            ctx.sample(dict(history=case['ops'], cache=dict(hits=cache.hits, misses=cache.misses, inserts=cache.inserts)))
        return
    # ---------------------------------------------------------------- threads
    nthreads = case['nthreads']
    rng = np.random.default_rng(case['seed'])
    plans = []
    for t in range(nthreads):
        plans.append([(int(rng.integers(0, NPOOL)), int(rng.integers(0, 2))) for _ in range(case['calls_per_thread'])])
    # references first (outside the threaded region)
    for plan in plans:
        for (i, k) in plan:
            _ref(ctx, i, k)
    results = [[] for _ in range(nthreads)]
    log = []
    ctr = itertools.count()
    trng = [np.random.default_rng(case['seed'] + 1 + t) for t in range(nthreads)]
    tindex = {}
    watched = set(w.code for w in _S['mon'].watches.values())

    def line_hook(code, line):
        t = tindex.get(threading.get_ident())
        if t is None:
            return
        log.append((next(ctr), t))
        if trng[t].random() < 0.3:
            time.sleep(0)

    barrier = threading.Barrier(nthreads)

    def worker(t):
        tindex[threading.get_ident()] = t
        objs = {}
        barrier.wait()
        for (i, k) in plans[t]:
            if i not in objs or trng[t].random() < 0.3:
                objs[i] = build(nd, pool[i])           # objects (and their step generators) are thread-private
            results[t].append((i, k, call(objs[i], pool[i]['points'][k])))

    fdm.FD_RULES.clear()
    old_si = sys.getswitchinterval()
    mon = _S['mon']
    sys.setswitchinterval(1e-6)
    mon.line_hook = line_hook
    # LINE events must keep firing: re-arm (they were one-shot disabled while line_hook was None)
    sys.monitoring.restart_events()
    try:
        threads = [threading.Thread(target=worker, args=(t,)) for t in range(nthreads)]
        for th in threads:
            th.start()
        for th in threads:
            th.join(timeout=600)
    finally:
        mon.line_hook = None
        sys.setswitchinterval(old_si)
    ctx.count('thread_rounds')
    sig = hashlib.sha1(bytes(t for _, t in sorted(log))).hexdigest()[:12]
    switches = sum(1 for a, b in zip(log[:-1], log[1:]) if a[1] != b[1])
    ctx.count('watched_line_events', len(log))
    ctx.count('observed_thread_switches_at_watched_lines', switches)
    sigs = _S.setdefault('sigs', set())
    if sig not in sigs and switches > 0:
        sigs.add(sig)
        ctx.count('distinct_interleavings')
    for t in range(nthreads):
        for (i, k, got) in results[t]:
            ctx.count('threaded_calls_compared')
            if not _compare(ctx, 'threads', i, k, got, extra=dict(nthreads=nthreads, switches=switches)):
                return
    if len(ctx.samples) < 5:
        ctx.sample(dict(threads=nthreads, watched_line_events=len(log), switches=switches, interleaving=sig))


def classify(wit):
    return None


TECHNIQUE = ('runtime monitoring: recorded operation histories checked offline against fresh-interpreter references '
             '(bit-identity); recording dict on the FD_RULES cache; forced thread interleavings via sys.monitoring LINE '
             'hooks with yield injection')
LEVEL_TEXT = ('exploration: every call in every generated history and every call made under forced thread interleavings is '
              'compared bit for bit with the same configuration evaluated in a fresh interpreter')
LEVEL_NOTE = 'interleavings are sampled (distinct signatures reported), not enumerated; C-level switches are out of reach'
