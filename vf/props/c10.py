"""C10 - step generators produce the documented geometric sequences, and enough steps.

Model written from the docstrings (shares no code with the library):
  Min:  steps_i = nom(x) * base * ratio**(i + offset),  i = num_steps-1 .. 0
  Max:  steps_i = nom(x) * base * ratio**(-i + offset), i = 0 .. num_steps-1
  C  :  as Min with ratio -> exp(1j*dtheta)*ratio on a spiral path
"""
import cmath
import math

import numpy as np

ID = 'C10'
NSHARDS = dict(quick=8, thorough=16)
BUDGET = dict(quick=2400, thorough=100000)
ANCHORS = ['numdifftools.step_generators:BasicMaxStepGenerator.__call__',
           'numdifftools.step_generators:MinStepGenerator.step_generator_function',
           'numdifftools.step_generators:MinStepGenerator.num_steps',
           'numdifftools.step_generators:MinStepGenerator.min_num_steps',
           'numdifftools.step_generators:MinStepGenerator.base_step',
           'numdifftools.step_generators:MinStepGenerator.step_nom',
           'numdifftools.step_generators:default_scale',
           'numdifftools.step_generators:get_nominal_step',
           'numdifftools.limits:CStepGenerator.step_ratio',
           'numdifftools.limits:CStepGenerator.num_steps']
MIN_COUNTERS = dict(quick={'sequences_asserted': 2000, 'elements_asserted': 15000, 'coupling_cells_asserted': 1200,
                           'cstep_sequences_asserted': 300, 'zero_steps_dropped_cases': 20,
                           'derivative_runs_without_step_shortage': 1200},
                    thorough={'sequences_asserted': 90000})
EXHAUSTIVE = dict(quick=False, thorough=False)
EXHAUSTIVE_NOTE = ('the coupling grid methods x n 1..10 x order 1..10 x {default, MinStepGenerator(), '
                   'MaxStepGenerator()} is enumerated completely in every run (shard 0); option records are sampled')
RULE = ('x also integer-typed, numeric options also as Python ints, and in 40 % of the cases the generator instance has produced sequences for other (x, method, n, order) before. ' 
        '(a) complete grid {central, forward, backward, complex, multicomplex(n<=2)} x n 1..10 x order 1..10: '
        'default step count >= length of the rule the real LogRule returns, and the real Derivative(exp)(1.0) does not '
        'raise for lack of steps, for the default generator, MinStepGenerator() and MaxStepGenerator(); (b) random option '
        'records (base_step, step_ratio, num_steps, step_nom, offset, num_extrap, use_exact_steps, check_num_steps, scale; '
        'path, dtheta for CStepGenerator) x method x n x order x scalar/array x against the closed-form model. distinct '
        'non-trivial = option records with >= 2 non-default options (keyed by class, which options are set, method, n, order)')
ASSUMPTIONS = ['agreement per element within 4 ulp (pow/log are not correctly rounded; 4+4|w log z| ulp for complex powers z**w) plus, with use_exact_steps, one '
               'quantum 2^-52 * |ratio|^(i+offset) of the (h+1)-1 rounding; counts, order and dtype exactly',
               'nominal step modelled as max(log(e - 1 + |x|), 1): the docstring says log(exp(1)+|x|), the statement only '
               '"log-growth in |x|, at least 1"; the two differ by < 0.32 and only the e-1 form is continuous at the clip']
EPS = 2.0 ** -52
METHODS = ['central', 'forward', 'backward', 'complex', 'multicomplex']


# ------------------------------------------------------------------------------ model
def m_default_scale(method, n, order):
    high_order = int(n > 1 or order >= 4)
    order2 = max(order // 2 - 1, 0)
    n4, nm4 = n // 4, n % 4
    if high_order:
        c = [n4 * (10 + 1.5 * int(n > 10)), 3.65 + n4 * (5 + 1.5 ** n4), 3.65 + n4 * (5 + 1.7 ** n4),
             7.30 + n4 * (5 + 2.1 ** n4)][nm4]
    else:
        c = 0
    base = {'multicomplex': 1.06, 'complex': 1.06 + c}.get(method, 2.5)
    per_n = {'multicomplex': 0.0, 'complex': 0.0}.get(method, 1.3)
    per_o = {'central': 3, 'forward': 2, 'backward': 2}.get(method, 0)
    return base + int(n - 1) * per_n + order2 * per_o


def m_nominal(x):
    return np.maximum(np.log(math.e - 1.0 + np.abs(np.asarray(x, dtype=float))), 1.0)


def m_min_num_steps(method, n, order):
    if method in ('central', 'central2', 'multicomplex'):
        div = 2
    elif method == 'complex':
        div = 4 if (n > 1 or order >= 4) else 2
    else:
        div = 1
    return max(int(n + order - 1) // div, 1)


def m_exact(h):
    return (h + 1.0) - 1.0


def model(kind, opts, x, method, n, order):
    """Returns (list of expected steps (np arrays / scalars), ratio used, quantum flag)."""
    o = dict(opts)
    if kind == 'max':
        d = dict(base_step=2.0, step_ratio=None, num_steps=15, step_nom=None, offset=0, num_extrap=9,
                 use_exact_steps=False, check_num_steps=True, scale=500)
    elif kind == 'min':
        d = dict(base_step=None, step_ratio=None, num_steps=None, step_nom=None, offset=0, num_extrap=0,
                 use_exact_steps=True, check_num_steps=True, scale=None)
    else:
        d = dict(base_step=None, step_ratio=4.0, num_steps=None, step_nom=None, offset=0, num_extrap=0,
                 use_exact_steps=True, check_num_steps=True, scale=1.2, path='radial', dtheta=math.pi / 8)
    d.update(o)
    x = np.asarray(x)
    scale = d['scale'] if d['scale'] is not None else m_default_scale(method, n, order)
    base = d['base_step'] if d['base_step'] is not None else EPS ** (1.0 / scale)
    nom = m_nominal(x) if d['step_nom'] is None else np.full(x.shape, float(d['step_nom']))
    ratio = d['step_ratio']
    if ratio is None:
        ratio = 2.0 if n == 1 else 1.6
    ratio = float(ratio)
    if kind == 'c' and d['path'] == 'spiral' and d['dtheta'] != 0:
        ratio = cmath.exp(1j * d['dtheta']) * ratio
    mn = m_min_num_steps(method, n, order)
    if kind == 'c':
        # CStepGenerator documents: num_steps as given, else 2*int(round(16/log|ratio|)) + 1
        cnt = int(d['num_steps']) if d['num_steps'] is not None else 2 * int(round(16.0 / math.log(abs(ratio)))) + 1
    elif d['num_steps'] is not None:
        cnt = int(d['num_steps'])
        if d['check_num_steps']:
            cnt = max(cnt, mn)
    else:
        cnt = mn + int(d['num_extrap'])
    b = base * nom
    if d['use_exact_steps']:
        b = m_exact(b)
        ratio = m_exact(ratio)
    off = d['offset']
    idx = range(cnt) if kind == 'max' else range(cnt - 1, -1, -1)
    sgn = -1 if kind == 'max' else 1
    out, expo = [], []
    for i in idx:
        st = b * ratio ** (sgn * i + off)
        if np.all(np.abs(st) > 0):
            out.append(st)
            expo.append(sgn * i + off)
    return out, ratio, bool(d['use_exact_steps']), expo, cnt


# ------------------------------------------------------------------------------ workload
def setup(ctx, mon):
    import numdifftools  # noqa
    import numdifftools.limits  # noqa

    def on_yield(frame, val):
        ctx.count('observed_yields')
        if not np.all(np.abs(val) > 0):
            ctx.reject('zero_step_yielded', observed=val)
    for a in ANCHORS:
        mon.watch(a, on_yield=on_yield if a.endswith('BasicMaxStepGenerator.__call__') else None)


def _rand_opts(rng, kind):
    o = {}
    if rng.random() < 0.5:
        o['base_step'] = float(10.0 ** rng.uniform(-9, 0.5)) if rng.random() < 0.9 else \
            float(rng.choice([1e-17, 1e-16, 3e-16]))
    if rng.random() < 0.5:
        o['step_ratio'] = float(rng.uniform(1.2, 8.0)) if rng.random() < 0.7 else float(rng.choice([2, 4, 1.6, 3, 10]))
    if rng.random() < 0.4:
        o['num_steps'] = int(rng.integers(1, 25))
    if rng.random() < 0.3:
        o['step_nom'] = float(rng.choice([1.0, 0.5, 2.0, 10.0 ** rng.uniform(-2, 1)]))
    if rng.random() < 0.4:
        o['offset'] = float(rng.uniform(-4, 4)) if rng.random() < 0.5 else int(rng.integers(-4, 5))
    if rng.random() < 0.3:
        o['num_extrap'] = int(rng.integers(0, 12))
    if rng.random() < 0.4:
        o['use_exact_steps'] = bool(rng.random() < 0.5)
    if rng.random() < 0.3:
        o['check_num_steps'] = bool(rng.random() < 0.5)
    if rng.random() < 0.3:
        o['scale'] = float(rng.uniform(1.0, 12.0))
    # magnitude classes: steps that underflow to exactly 0.0 although the base step is not 0 (tiny base step, huge ratio,
    # far negative offset): "zero steps are dropped" is decided step by step
    if rng.random() < 0.06:
        which = int(rng.integers(0, 3))
        if which == 0:
            o['base_step'] = float(10.0 ** rng.uniform(-320, -290))
            o['use_exact_steps'] = False
        elif which == 1 and kind == 'max':          # (descending sequences only: an ascending one overflows, loudly)
            o['step_ratio'] = float(10.0 ** rng.uniform(15, 30))
            o['num_steps'] = int(rng.integers(10, 25))
        elif which == 1:
            o['base_step'] = float(10.0 ** rng.uniform(-320, -290))
            o['use_exact_steps'] = False
        else:
            o['offset'] = int(rng.choice([-1100, -900]))
    # numeric options given as Python ints where the value is integral (step_ratio=2, base_step=1, step_nom=2, scale=3)
    for key in ('step_ratio', 'base_step', 'step_nom', 'scale'):
        if key in o and float(o[key]).is_integer() and rng.random() < 0.5:
            o[key] = int(o[key])
    if 'scale' in o and rng.random() < 0.15:
        o['scale'] = int(round(o['scale']))
    if 'step_ratio' in o and rng.random() < 0.1:
        o['step_ratio'] = int(rng.choice([2, 3, 4, 8, 10]))
    if kind == 'c':
        if rng.random() < 0.6:
            o['path'] = str(rng.choice(['radial', 'spiral']))
        if rng.random() < 0.5:
            # (either sense of rotation; occasionally no rotation at all)
            o['dtheta'] = float(rng.uniform(0.05, 1.2)) * float(rng.choice([1.0, 1.0, -1.0])) if rng.random() < 0.92 else 0.0
    return o


def cases(rng, tier, shard, nshards):
    if shard == 0:
        for method in METHODS:
            for n in range(1, 11):
                if method == 'multicomplex' and n > 2:
                    continue
                for order in range(1, 11):
                    yield dict(kind='grid', method=method, n=n, order=order)
    for i in range(BUDGET[tier] // nshards):
        kind = ['min', 'max', 'c'][i % 3]
        method = str(rng.choice(METHODS + ['central2']))        # (central2: the Hessian-only alias, documented like central)
        n = int(rng.integers(1, 11))
        order = int(rng.integers(1, 11))
        u = rng.random()
        if u < 0.08:
            x = int(rng.integers(-60, 61))                   # integer-typed x (the library hands np.asarray(x) to the generator)
        elif u < 0.16:
            x = [int(v) for v in rng.integers(-60, 61, size=int(rng.integers(1, 5)))]
        elif u < 0.5:
            x = float(rng.choice([-1, 1]) * 10.0 ** rng.uniform(-3, 3)) if rng.random() < 0.9 else 0.0
        else:
            shape = [int(s) for s in rng.integers(1, 4, size=int(rng.integers(1, 3)))]
            x = (rng.normal(size=shape) * 10.0 ** rng.uniform(-2, 2)).tolist()
        hist = None
        if rng.random() < 0.4:
            hist = []
            for _ in range(int(rng.integers(1, 4))):
                same = rng.random() < 0.6          # mostly the same (method, n) with another order / point: near-collisions
                hist.append([float(rng.choice([-1, 1]) * 10.0 ** rng.uniform(-2, 2)), method if same else str(rng.choice(METHODS)),
                             n if same else int(rng.integers(1, 11)), int(rng.integers(1, 11))])
        opts = _rand_opts(rng, kind)
        assign = None
        if rng.random() < 0.25 and opts:
            other = _rand_opts(rng, kind)
            # constructor options: another random configuration restricted to the keys that will all be re-assigned afterwards
            ctor = {k: v for k, v in other.items() if k in opts}
            assign = dict(ctor=ctor, order=[str(k) for k in rng.permutation(sorted(opts))])
        yield dict(kind=kind, opts=opts, x=x, method=method, n=n, order=order, history=hist, assign=assign)


def _ulp(v):
    return math.ulp(abs(v)) if v != 0 else 5e-324


def run_case(case, ctx):
    import numdifftools as nd
    from numdifftools.step_generators import MinStepGenerator, MaxStepGenerator
    from numdifftools.limits import CStepGenerator
    from numdifftools.finite_difference import LogRule
    if case['kind'] == 'grid':
        method, n, order = case['method'], case['n'], case['order']
        for gkind, mk in (('default', None), ('min', MinStepGenerator), ('max', MaxStepGenerator)):
            try:
                d = nd.Derivative(np.exp, step=mk() if mk else None, method=method, n=n, order=order)
                rule_len = int(np.size(LogRule(n=n, method=method, order=order).rule(2.0 if n == 1 else 1.6)))
                gen = d.step
                steps = list(gen(np.asarray(1.0), method, n, d.method_order))
            except Exception as exc:
                ctx.reject('grid_setup_raised', observed=repr(exc), detail=dict(gen=gkind))
                return
            ctx.count('coupling_cells_asserted')
            if len(steps) < rule_len:
                ctx.reject('default_count_below_rule_length', observed=len(steps), expected=rule_len,
                           detail=dict(gen=gkind))
                return
            try:
                val = d(1.0)
                ctx.count('derivative_runs_without_step_shortage')
            except ValueError as exc:
                ctx.reject('valid_configuration_failed_for_lack_of_steps', observed=str(exc)[:200],
                           detail=dict(gen=gkind, steps=len(steps), rule_len=rule_len))
                return
            except Exception as exc:
                ctx.count('grid_other_exception(%s; decided elsewhere)' % type(exc).__name__)
        return
    kind, opts = case['kind'], case['opts']
    cls = dict(min=MinStepGenerator, max=MaxStepGenerator, c=CStepGenerator)[kind]
    opts_lib, bs_arr = opts, None
    if np.ndim(case['x']) >= 1 and isinstance(opts.get('base_step'), float) and not case.get('assign') \
            and (case['n'] + case['order']) % 3 == 0:
        # an array-valued base step (one per element of x), handed over as the caller's own ndarray
        shp = np.shape(case['x'])
        bs_arr = opts['base_step'] * (1.0 + (np.arange(int(np.prod(shp))).reshape(shp) % 4) / 8.0)
        opts = dict(opts, base_step=bs_arr.copy())          # (the model's copy)
        opts_lib = dict(opts, base_step=bs_arr.copy())      # (the caller's array, as the library gets it)
        ctx.count('array_valued_base_step_cases')
    x = np.asarray(case['x'], dtype=float)
    x_lib = np.asarray(case['x'])            # integer dtype preserved, as Derivative.__call__ would pass it
    if x_lib.dtype.kind in 'iu':
        ctx.count('integer_typed_x_cases')
    method, n, order = case['method'], case['n'], case['order']
    try:
        assign = case.get('assign')
        if assign:
            # the options reach the generator through attribute assignment on an existing (and already used) object instead of
            # the constructor: first built with the options in assign['ctor'], used once, then every option is assigned
            ctx.count('options_assigned_after_construction')
            gen = cls(**{k: v for k, v in assign['ctor'].items()})
            try:
                list(gen(np.asarray(0.7), method, n, order))
            except Exception:
                pass
            for k in assign['order']:
                setattr(gen, k, opts[k])
        elif kind in ('min', 'max') and (case['n'] + 2 * case['order']) % 4 == 1:
            # the documented positional signature (base_step, step_ratio, num_steps, step_nom, offset, num_extrap, use_exact_steps,
            # check_num_steps, scale), every position filled (with the documented default where the case gives no value)
            ctx.count('generator_built_positionally')
            dflt = (dict(base_step=None, step_ratio=None, num_steps=None, step_nom=None, offset=0, num_extrap=0, use_exact_steps=True,
                         check_num_steps=True, scale=None) if kind == 'min' else
                    dict(base_step=2.0, step_ratio=None, num_steps=15, step_nom=None, offset=0, num_extrap=9, use_exact_steps=False,
                         check_num_steps=True, scale=500))
            extra = {k: v for k, v in opts_lib.items() if k not in dflt}
            gen = cls(*[opts_lib.get(k, dflt[k]) for k in dflt], **extra)
        else:
            gen = cls(**opts_lib)
        hist = case.get('history')
        if hist:
            # the same generator instance has already produced sequences for other points / methods / n / orders (a
            # generator shared by several Derivative objects): nothing of that may leak into the sequence that is judged
            ctx.count('generator_reused_after_other_configurations')
            for (hx, hm, hn, ho) in hist:
                try:
                    list(gen(np.asarray(hx), hm, hn, ho))
                except Exception:
                    pass
        if (n + 2 * order) % 4 == 1:
            # the sequence is asked for, then another one from the same generator (other point, method, n, order), and only then is
            # the first one consumed (zip(gen(x1), gen(x2)), a stored iterator): it is still the sequence that was asked for
            it_first = gen(x_lib, method, n, order)
            it_other = gen(np.asarray(-12.5), 'forward' if method != 'forward' else 'central', 3 if n != 3 else 1, 2 if order != 2 else 4)
            got = list(it_first)
            list(it_other)
            ctx.count('sequence_consumed_after_another_was_requested')
        else:
            got = list(gen(x_lib, method, n, order))
    except Exception as exc:
        ctx.reject('generator_raised', observed=repr(exc))
        return
    if bs_arr is not None and np.asarray(opts_lib['base_step']).tobytes() != bs_arr.tobytes():
        ctx.reject('callers_base_step_array_modified', observed=np.ravel(opts_lib['base_step'])[:4], expected=np.ravel(bs_arr)[:4])
        return
    exp, ratio, exact_steps, expo, cnt = model(kind, opts, x, method, n, order)
    ctx.count('sequences_asserted')
    if kind == 'c':
        ctx.count('cstep_sequences_asserted')
    if len(exp) < cnt:
        ctx.count('zero_steps_dropped_cases')
    if len(got) != len(exp):
        ctx.reject('count', observed=len(got), expected=len(exp), detail=dict(model_nominal_count=cnt))
        return
    rat = getattr(gen, 'step_ratio', None)
    prev_mag = None
    for k, (g, e) in enumerate(zip(got, exp)):
        g_arr, e_arr = np.asarray(g), np.asarray(e)
        if g_arr.shape != e_arr.shape:
            ctx.reject('shape', observed=list(g_arr.shape), expected=list(e_arr.shape), detail=dict(k=k))
            return
        if np.iscomplexobj(e_arr) != np.iscomplexobj(g_arr) or g_arr.dtype.kind not in 'fc':
            ctx.reject('dtype', observed=str(g_arr.dtype), expected=str(e_arr.dtype), detail=dict(k=k))
            return
        quantum = (EPS * abs(ratio) ** expo[k] * (1 + 1e-9)) if exact_steps else 0.0
        for gv, ev in zip(g_arr.ravel(), e_arr.ravel()):
            ctx.count('elements_asserted')
            nulp = 4.0
            if isinstance(ratio, complex):   # complex pow = exp(w log z): error grows with |w log z|
                nulp += 4.0 * abs(expo[k]) * abs(cmath.log(ratio))
            tol = nulp * _ulp(abs(ev)) + quantum * (2 if np.iscomplexobj(e_arr) else 1)
            ctx.maximum('element_err/tol', abs(gv - ev) / tol if tol > 0 else 0.0)
            if not abs(gv - ev) <= tol:
                ctx.reject('element_differs_from_documented_sequence', observed=gv, expected=ev,
                           detail=dict(k=k, tol=tol, exponent=expo[k]))
                return
        mag = float(np.max(np.abs(g_arr)))
        if prev_mag is not None and not mag <= prev_mag * (1 + 8 * EPS):
            ctx.reject('not_decreasing_in_magnitude', observed=[prev_mag, mag], detail=dict(k=k))
            return
        prev_mag = mag
    nondefault = sorted(opts)
    if len(nondefault) >= 2:
        ctx.nontrivial((kind, nondefault, method, n, order))
    if len(ctx.samples) < 3:
        ctx.sample(dict(case=case, steps=[np.asarray(g).ravel()[:2] for g in got[:4]], count=len(got)))


def classify(wit):
    return None


TECHNIQUE = ('runtime monitoring: contracts on the generators\' yielded sequences + observer on every yield; '
             'independent closed-form model; complete coupling grid against the real LogRule/Derivative')
LEVEL_TEXT = ('exploration (the coupling grid is enumerated completely): every generated sequence is compared element '
              'by element with a closed-form model written from the docstrings; the step-count/rule-length coupling is '
              'checked on every (method, n, order) cell by running the real Derivative')
LEVEL_NOTE = 'model tolerances: 4 ulp per element + one (h+1)-1 quantum when exact steps are requested'
