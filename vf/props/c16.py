"""C16 - fd_derivative is exact on polynomials at every point of any (long enough) grid."""
from fractions import Fraction
import math

import numpy as np

from vf.oracle.exact import F, lagrange_derivative_weights, poly_eval, poly_deriv, to_float, EPS

ID = 'C16'
NSHARDS = dict(quick=8, thorough=16)
BUDGET = dict(quick=1200, thorough=30000)
ANCHORS = ['numdifftools.fornberg:fd_derivative']
MIN_COUNTERS = dict(quick={'points_asserted:left_boundary': 500, 'points_asserted:right_boundary': 500,
                           'points_asserted:interior': 1000},
                    thorough={'points_asserted:interior': 50000})
RULE = ('Grid kinds also jittered (uniform up to 1e-9..1e-3), tiny_unit, huge_unit; in half of the cases the grid has been differentiated before with other (n, m) of the same stencil width. ' 
        'grids of length 2mm+2..60 (mm = n//2+m): uniform, random strictly increasing, random strictly '
        'decreasing, geometric; n in 1..6, m in 1..4; integer-coefficient polynomials of every degree '
        '0..2mm sampled exactly and rounded once; each grid index is compared with p^(n)(x_i). distinct '
        'non-trivial = (n, m, grid kind, degree) with degree >= n (derivative not identically zero)')
ASSUMPTIONS = ['documented stencils: the first/last 2mm+2 points for the mm points at each end, centred 2mm+1 '
               'window inside; they are only used for the conditioning scale sum_j|w_j fx_j|, the expected '
               'value is the exact derivative of the polynomial',
               'bound C*(eps*size*sum_j|w_j fx_j| + measured sensitivity to node displacement eps*stencil width)']
C_PT = 256.0
KINDS = ['uniform', 'increasing', 'decreasing', 'geometric', 'jittered', 'tiny_unit', 'huge_unit', 'integer_grid', 'far_offset', 'zero_node']


def setup(ctx, mon):
    import numdifftools.fornberg  # noqa
    mon.watch('numdifftools.fornberg:fd_derivative')
    mon.watch('numdifftools.fornberg:_fd_weights_all')


def cases(rng, tier, shard, nshards):
    for j in range(2 if tier == 'quick' else 12):
        yield dict(kind='threads', n=int(rng.integers(1, 4)), m=int(rng.integers(1, 3)), seed=int(rng.integers(0, 2 ** 31)),
                   nthreads=int(rng.choice([2, 4, 8])))
    nc = BUDGET[tier] // nshards
    for i in range(nc):
        n = int(rng.integers(1, 7))
        m = int(rng.integers(1, 5))
        mm = n // 2 + m
        lo = 2 * mm + 2
        length = int(rng.integers(lo, 61)) if rng.random() < 0.6 else int(rng.integers(lo, lo + 4))
        kind = KINDS[(i + shard) % len(KINDS)]
        deg = int(rng.integers(0, 2 * mm + 1)) if rng.random() < 0.7 else 2 * mm
        yield dict(n=n, m=m, length=length, kind=kind, degree=deg, seed=int(rng.integers(0, 2 ** 31)),
                   as_list=bool(rng.random() < 0.2))


def make_grid(rng, kind, length):
    if kind == 'uniform':
        return np.linspace(rng.uniform(-2, 0), rng.uniform(0.5, 3), length)
    if kind == 'geometric':
        return 0.1 * rng.uniform(1.05, 1.3) ** np.arange(length)
    if kind == 'integer_grid':
        # integer abscissae (uniform or not), handed over as an integer array or a list of Python ints, with integer samples
        x = int(rng.integers(-20, 21)) + np.cumsum(rng.integers(1, 4 if rng.random() < 0.6 else 2, size=length))
        return (x[::-1].copy() if rng.random() < 0.3 else x).astype(float)
    if kind == 'zero_node':
        # a grid with a node that is exactly zero (0.0 or -0.0) at an end, next to an end, or inside: linspace(0, 1, n),
        # arange(n), a decreasing grid that ends at 0
        steps = rng.uniform(0.2, 1.0, length) * 10.0 ** rng.uniform(-2, 0) if rng.random() < 0.6 else np.full(length, float(rng.choice([1.0, 0.125, 0.1])))
        x = np.cumsum(steps)
        k = int(rng.choice([0, 0, 1, 2, length - 1, length - 2, length // 2]))
        x = x - x[k]
        x[k] = 0.0 if rng.random() < 0.7 else -0.0
        return x[::-1].copy() if rng.random() < 0.4 else x
    if kind == 'far_offset':
        # an ordinary grid far from the origin compared with its own extent (timestamps, 1e6 + linspace(0, 1, n)): the
        # polynomial is written in the local variable, so the problem is as well conditioned as at the origin
        steps = rng.uniform(0.2, 1.0, length) * 10.0 ** rng.uniform(-2, 0)
        x = np.cumsum(steps)
        x = float(np.round(10.0 ** rng.uniform(3, 9))) * float(rng.choice([-1, 1])) + x
        return x[::-1].copy() if rng.random() < 0.3 else x
    if kind == 'jittered':
        # almost uniform: spacing perturbed by a relative 1e-9 .. 1e-3 (a grid that "looks" uniform is not uniform)
        d = 10.0 ** rng.uniform(-2, 0)
        x = rng.uniform(-1, 1) + d * (np.arange(length) + 10.0 ** rng.uniform(-9, -3) * rng.uniform(-1, 1, length))
        return x[::-1].copy() if rng.random() < 0.3 else x
    steps = rng.uniform(0.2, 1.0, length) * 10.0 ** rng.uniform(-2, 0)
    x = rng.uniform(-1, 1) + np.cumsum(steps)
    if kind in ('tiny_unit', 'huge_unit'):
        # the same kind of grid in other units (absolute tolerances have no business in the weights)
        x = x * 10.0 ** (rng.uniform(-13, -5) if kind == 'tiny_unit' else rng.uniform(3, 8))
        return x[::-1].copy() if rng.random() < 0.3 else x
    return x[::-1].copy() if kind == 'decreasing' else x


def run_threads(case, ctx):
    """fd_derivative is a function of its arguments: several threads differentiating samples on grids of the same length (same n,
    same stencil) at the same time get, bit for bit, what each gets alone."""
    import sys
    import threading
    from numdifftools.fornberg import fd_derivative
    rng = np.random.default_rng(case['seed'])
    n, m = case['n'], case['m']
    length = 2 * (n // 2 + m) + 2 + int(rng.integers(6, 30))
    jobs = []
    for t in range(case['nthreads']):
        xg = np.cumsum(rng.uniform(0.2, 1.0, length)) * (1.0 if t % 2 == 0 else -1.0) + float(rng.uniform(-2, 2))
        jobs.append((np.sin(xg) + 0.1 * xg ** 3, xg))
    alone = [np.array(fd_derivative(fx, xg, n=n, m=m), copy=True) for fx, xg in jobs]
    got = [[] for _ in jobs]
    old = sys.getswitchinterval()
    sys.setswitchinterval(1e-6)
    start = threading.Barrier(len(jobs))

    def worker(k):
        start.wait(30)
        for _ in range(12):
            try:
                got[k].append(np.array(fd_derivative(jobs[k][0], jobs[k][1], n=n, m=m), copy=True))
            except Exception as exc:
                got[k].append(exc)
    ths = [threading.Thread(target=worker, args=(k,)) for k in range(len(jobs))]
    try:
        for th in ths:
            th.start()
        for th in ths:
            th.join(120)
    finally:
        sys.setswitchinterval(old)
    ctx.count('concurrent_rounds')
    for k, lst in enumerate(got):
        for r in lst:
            ctx.count('concurrent_results_compared')
            if isinstance(r, Exception) or r.tobytes() != alone[k].tobytes():
                ctx.reject('result_differs_when_other_threads_differentiate_at_the_same_time', observed=(repr(r)[:120] if isinstance(r, Exception) else r[:4]),
                           expected=alone[k][:4], detail=dict(threads=len(jobs), n=n, m=m, length=length))
                return
    ctx.nontrivial(('threads', n, m, case['nthreads']))


def run_case(case, ctx):
    if case['kind'] == 'threads':
        return run_threads(case, ctx)
    from numdifftools.fornberg import fd_derivative
    rng = np.random.default_rng(case['seed'])
    n, m, length, deg = case['n'], case['m'], case['length'], case['degree']
    mm = n // 2 + m
    x = np.asarray(make_grid(rng, case['kind'], length), dtype=float)
    coefs = [int(c) for c in rng.integers(-9, 10, deg + 1)]
    if coefs[-1] == 0:
        coefs[-1] = 1
    if case['kind'] == 'integer_grid':
        deg = min(deg, 4)            # (keeps the integer samples far below 2**53)
        coefs = coefs[:deg + 1]
        if coefs[-1] == 0:
            coefs[-1] = 1
    xs = [F(float(v)) for v in x]
    if case['kind'] in ('tiny_unit', 'huge_unit'):
        # polynomial in the grid's own unit: q(x) = p((x - shift)/unit), q^(n)(x) = p^(n)(.)/unit^n
        unit = F(float(2.0 ** math.floor(math.log2(float(np.max(np.abs(np.diff(x))))))))
        shift = xs[len(xs) // 2]
    else:
        unit = F(1)
        shift = F(float(np.round(x.mean(), 2))) if case['kind'] != 'integer_grid' else F(int(round(float(x.mean()))))
        if case['kind'] == 'far_offset':
            shift = xs[len(xs) // 2]
    fx_exact = [poly_eval(coefs, (v - shift) / unit) for v in xs]
    fx = np.array([float(v) for v in fx_exact])
    dcoefs = poly_deriv(coefs, n)
    args = (list(fx), list(x)) if case['as_list'] else (fx.copy(), x.copy())
    view = ['none', 'none', 'strided', 'reversed_base', 'column'][case['seed'] % 5] if not case['as_list'] else 'none'
    if view != 'none' and case['kind'] != 'integer_grid':
        # the same numbers as non-contiguous 1-D views (every second element of a longer array, a reversed base array, a column
        # of a table)
        def as_view(a):
            if view == 'strided':
                big = np.full(2 * len(a), 1e300)
                big[::2] = a
                return big[::2]
            if view == 'reversed_base':
                return a[::-1].copy()[::-1]
            tab = np.full((len(a), 3), -7.0)
            tab[:, 1] = a
            return tab[:, 1]
        args = (as_view(fx), as_view(x))
        ctx.count('non_contiguous_views:' + view)
    if case['kind'] == 'integer_grid':
        ctx.count('integer_grid_cases')
        xi, fi = x.astype(np.int64), np.array([int(v) for v in fx_exact], dtype=np.int64)
        args = ([int(v) for v in fi], [int(v) for v in xi]) if case['as_list'] else (fi, xi)
    if case['seed'] % 2:
        # history: the same grid has already been differentiated in this process with other (n, m), preferably a higher
        # order on the same stencil width (whatever the library remembers about a stencil must not be served to another order)
        ctx.count('grid_differentiated_before_with_other_orders')
        alts = [(n2, m2) for n2 in range(1, 7) for m2 in range(1, 5) if (n2, m2) != (n, m) and n2 // 2 + m2 == mm]
        alts.sort(key=lambda t: -t[0])
        for (n2, m2) in alts[:2]:
            try:
                fd_derivative(fx.copy(), x.copy(), n=n2, m=m2)
            except Exception:
                pass
    try:
        if case['as_list']:
            out = fd_derivative(np.asarray(args[0]), args[1], n=n, m=m)
        else:
            out = fd_derivative(args[0], args[1], n, m) if case['seed'] % 4 == 2 else fd_derivative(args[0], args[1], n=n, m=m)
    except Exception as exc:
        ctx.reject('raised', observed=repr(exc))
        return
    if not case['as_list'] and case['kind'] != 'integer_grid' and (np.ascontiguousarray(args[0]).tobytes() != fx.tobytes() or np.ascontiguousarray(args[1]).tobytes() != x.tobytes()):
        ctx.reject('input_modified')
        return
    out = np.asarray(out)
    # a result the caller holds must not change when the library differentiates something else of the same size
    out_then = out.copy()
    try:
        fd_derivative(np.asarray(fx, dtype=float)[::-1].copy() * 1.5, np.asarray(x, dtype=float) + 0.25, n=n, m=m)
    except Exception:
        pass
    ctx.count('earlier_result_checked_after_a_later_call')
    if out.tobytes() != out_then.tobytes():
        ctx.reject('returned_array_changed_by_a_later_call', observed=out[:4], expected=out_then[:4])
        return
    if out.flags.writeable and case['seed'] % 3 == 0:
        # ... and what the caller does to the array it was given does not reach the library: the same request again, same numbers
        out *= 0.5
        try:
            again = np.asarray(fd_derivative(args[0], args[1], n=n, m=m))
        except Exception as exc:
            ctx.reject('raised', observed=repr(exc), detail=dict(repeated_request=True))
            return
        ctx.count('request_repeated_after_the_caller_modified_its_result')
        if again.tobytes() != out_then.tobytes():
            ctx.reject('result_depends_on_what_the_caller_did_to_an_earlier_result', observed=again[:4], expected=out_then[:4])
            return
        out = again
    if out.shape != (length,):
        ctx.reject('length', observed=list(out.shape), expected=[length])
        return
    size = 2 * mm + 2
    # which indices to decide: every boundary point at both ends, the first and last interior
    # point, and a few random interior points (all of them in the thorough tier for short grids)
    idx = set(range(mm)) | set(range(length - mm, length)) | {mm, length - mm - 1}
    interior = list(range(mm, length - mm))
    k = len(interior) if (ctx.tier == 'thorough' and length <= 24) else min(4, len(interior))
    idx |= set(int(v) for v in rng.choice(interior, size=k, replace=False))
    outc = None
    if case['seed'] % 3 == 1 and case['kind'] != 'integer_grid':
        # complex-valued samples (the polynomial times 0.6 + 0.8j: a polynomial with complex coefficients): same weights, same rule
        try:
            outc = np.asarray(fd_derivative(fx * (0.6 + 0.8j), x.copy(), n=n, m=m))
        except Exception as exc:
            ctx.reject('raised', observed=repr(exc), detail=dict(complex_samples=True))
            return
        ctx.count('complex_sample_calls')
        if outc.shape != (length,):
            ctx.reject('length', observed=list(outc.shape), expected=[length], detail=dict(complex_samples=True))
            return
    worst, worst_at = 0.0, None
    for i in sorted(idx):
        if i < mm:
            sl, where = slice(0, size), 'left_boundary'
        elif i >= length - mm:
            sl, where = slice(length - size, length), 'right_boundary'
        else:
            sl, where = slice(i - mm, i + mm + 1), 'interior'
        nodes = [float(v) for v in x[sl]]
        w = lagrange_derivative_weights(nodes, float(x[i]), n)[n]
        # (node differences are formed with a relative rounding of eps/2 each: nodes effectively displaced by eps times the
        # distance to their nearest neighbour - not by eps times the stencil width or the distance from the origin)
        srt = sorted(nodes)
        gap = {v: min([abs(v - u) for u in srt if u != v] or [1.0]) for v in nodes}
        sg = rng.choice([-1.0, 1.0], len(nodes))
        wp = lagrange_derivative_weights([v + s_ * 2 * EPS * gap[v] for v, s_ in zip(nodes, sg)], float(x[i]), n)[n]
        vals = fx_exact[sl]
        scale = sum(abs(wj * fj) for wj, fj in zip(w, vals))
        sens = sum(abs((wj - wpj) * fj) for wj, wpj, fj in zip(w, wp, vals))
        bound = C_PT * (EPS * len(nodes) * to_float(scale) + to_float(sens))
        ref = poly_eval(dcoefs, (xs[i] - shift) / unit) / unit ** n
        o = float(out[i])
        ctx.count('points_asserted:' + where)
        if not math.isfinite(o):
            ctx.reject('nonfinite', observed=o, detail=dict(index=i, where=where))
            return
        if outc is not None:
            ref_f = to_float(ref)
            errc = abs(complex(outc[i]) - (0.6 + 0.8j) * ref_f)
            ctx.count('points_asserted:complex_samples')
            if not errc <= 2 * bound + 16 * EPS * abs(ref_f):
                ctx.reject('not_exact_on_polynomial', observed=complex(outc[i]), expected=(0.6 + 0.8j) * ref_f,
                           detail=dict(index=i, where=where, err=errc, bound=2 * bound + 16 * EPS * abs(ref_f), complex_samples=True), where=where)
                return
        err = to_float(abs(F(o) - ref))
        ratio = err / bound if bound > 0 else (0.0 if err == 0 else math.inf)
        if ratio > worst:
            worst, worst_at = ratio, dict(index=i, where=where, observed=o, expected=to_float(ref),
                                          err=err, bound=bound)
    ctx.maximum('err/bound(C=%g)' % C_PT, worst, dict(n=n, m=m, kind=case['kind'], deg=deg))
    if worst > 1:
        ctx.reject('not_exact_on_polynomial', observed=worst_at['observed'], expected=worst_at['expected'],
                   detail=worst_at, where=worst_at['where'])
        return
    if deg >= n:
        ctx.nontrivial((n, m, case['kind'], deg))
    if len(ctx.samples) < 2:
        ctx.sample(dict(case=case, coefs=coefs, x_first=x[:4], out_first=out[:4]))


def classify(wit):
    return None


TECHNIQUE = 'runtime monitoring: contract on fd_derivative returns; exact polynomial-derivative oracle'
LEVEL_TEXT = ('exploration: each returned grid value (all boundary points, sampled interior points) is compared '
              'with the exact derivative of the sampled polynomial, within conditioning-scaled rounding')
LEVEL_NOTE = 'trusts CPython Fraction arithmetic; bound constant calibrated on the unchanged tree (30x headroom)'
