"""C02 - the reported error estimate is honest; the full_output record is self-consistent."""
import math

import numpy as np

from vf import expr as X
from vf.boundary import Recorder
from vf.oracle import jets
from vf.props import _deriv as D

ID = 'C02'
NSHARDS = dict(quick=16, thorough=16)
BUDGET = dict(quick=4000, thorough=250000)
ANCHORS = ['numdifftools.extrapolation:Richardson._estimate_error', 'numdifftools.extrapolation:dea3',
           'numdifftools.limits:_Limit._add_error_to_outliers', 'numdifftools.limits:_Limit._get_arg_min',
           'numdifftools.limits:_Limit._get_best_estimate', 'numdifftools.core:Derivative.__call__',
           'numdifftools.core:Jacobian._derivative_nonzero_order', 'numdifftools.core:Gradient.__call__']
RATE_CAPS = {'selector-picked-rounding-dominated-step': ('hostile_tail_elements_in_scope', 0.06, 100)}
K_EST = 300.0
C_FLOOR = 10.0
CAP_E = 3.0e4       # 10 x the C01 constant A: the floor never exceeds CAP_E * E*
MIN_COUNTERS = dict(quick={'honesty_asserted:Derivative': 1200, 'honesty_asserted:Gradient': 150,
                           'honesty_asserted:Jacobian': 150, 'honesty_asserted:Hessdiag': 150,
                           'honesty_asserted:Hessian': 150, 'record_asserted': 3000,
                           'estimate_decided_the_case': 100, 'stationary_point_entries_asserted': 60, 'overlapping_f_value_asserted': 60, 'broadcast_entries_asserted': 500, 'selection_tables_asserted': 200},
                    thorough={'honesty_asserted:Derivative': 60000})
RULE = ('Input classes and histories as in C01, plus full_output switched on after construction, stationary points with a single difference quotient, and the C01 corpus. ' 
        'Derivative cases as in C01 (random expression programs x points x every (method, n, order) cell x step '
        'specifications) plus Gradient / Jacobian / Hessdiag / Hessian on separable-plus-cross families F(x) = sum_k a_ik '
        'g_k(x_k) + beta x_p x_q with univariate programs g_k (exact partial derivatives from jets), dimension 1..4, all '
        'methods; every call with full_output=True. distinct non-trivial = (class, method, n, order, program) whose error '
        'exceeds 10 x the rounding floor, so that the estimate and not the floor decides the case')
ASSUMPTIONS = ['honest means |value - exact| <= K * error_estimate + C_f * eps * Lambda * S(final_step), K = 300, C_f = 10: the floor is '
               'the rounding a difference quotient cannot avoid at the step the library itself reports (S(rho) = n! max_k c^_k '
               'rho^(k-n) with the program\'s evaluation noise in c^_0, Lambda = observed sum|w_rule| * sum|w_richardson|); for the '
               'cancellation-free schemes S is taken at the natural radius min(1, rho_valid); the floor is capped at 3e4 E* (E* = the C01 '
               'envelope of the best window) so that a reported step at which rounding swamps everything excuses nothing',
               'same scope as C01 (real-analytic on the probed segment, a valid window exists, f finite)',
               'record contract is exact: f_value bit-identical to the first evaluation at x, error_estimate >= 0 and finite where the '
               'value is finite, min|steps| <= |final_step| <= max|steps| of the yielded steps, one estimate/step per result entry, '
               'index inside the extrapolation table']
EPS = 2.0 ** -52
CLASSES = ['Gradient', 'Jacobian', 'Hessdiag', 'Hessian']
G_PROGS = [
    ('fn', 'exp', ('mul', ('c', 0.5), ('x',))),
    ('fn', 'sin', ('mul', ('c', 1.5), ('x',))),
    ('powi', ('x',), 3),
    ('div', ('c', 1.0), ('add', ('c', 1.0), ('mul', ('x',), ('x',)))),
    ('fn', 'log', ('add', ('c', 2.0), ('mul', ('x',), ('x',)))),
    ('fn', 'cosh', ('x',)),
    ('mul', ('x',), ('fn', 'cos', ('x',))),
    ('fn', 'tanh', ('x',)),
    ('fn', 'sqrt', ('add', ('c', 1.0), ('mul', ('x',), ('x',)))),
    ('powi', ('x',), 2),
]
MULTI_METHODS = dict(Gradient=['central', 'forward', 'backward', 'complex', 'multicomplex'],
                     Jacobian=['central', 'forward', 'backward', 'complex', 'multicomplex'],
                     Hessdiag=['central', 'forward', 'backward', 'complex', 'multicomplex'],
                     Hessian=['central', 'central2', 'forward', 'backward', 'complex', 'multicomplex'])


def setup(ctx, mon):
    D.setup_monitors(ctx, mon, ANCHORS)


# a witness of the listed finding selector-picked-steps-beyond-validity-radius (the quick tier does not always draw one)
KNOWN_WITNESSES = [
    # a negative scalar step with the multivariate classes (the estimate of a single quotient was negative; repaired, 941b3cf)
    dict(kind='multi', cls='Hessdiag', dim=1, method='central', order=4, g=[1], x=[-1.7978], stationary=[False], m=1, beta=1.384, seed=1835356874,
         step=dict(kind='scalar', value=-0.000542275392277162)),
    dict(kind='multi', cls='Gradient', dim=2, method='forward', order=2, g=[2, 1], x=[0.31, 0.72], stationary=[False, False], m=1, beta=0.9, seed=77,
         step=dict(kind='scalar', value=-0.003)),
    dict(kind='multi', cls='Gradient', dim=2, method='central', order=4, g=[6, 1], x=[0.0476, 0.4929], stationary=[False, False],
         m=2, beta=-1.891, seed=1786700754,
         step=dict(kind='min', opts=dict(base_step=0.005345692900430121, num_steps=13, step_ratio=5.1053359493103))),
]


def cases(rng, tier, shard, nshards):
    if shard == 0:
        from vf.props.c01 import CORPUS
        for c in CORPUS:       # the inputs of repaired defects and of listed findings, under this property's oracle too
            yield dict(dict(shape=[], step=dict(kind='default'), cplx=False, stationary=False, int_x=False, kind='derivative'), **c)
        for c in KNOWN_WITNESSES:
            yield dict(c)
    total = BUDGET[tier] // nshards
    for j in range(40 if tier == 'quick' else 400):
        yield dict(kind='selection', rows=int(rng.integers(3, 13)), cols=int(rng.integers(1, 6)), seed=int(rng.integers(0, 2 ** 31)),
                   pattern=['random', 'ends', 'nan_between'][j % 3])
    for j in range(6 if tier == 'quick' else 60):
        yield dict(kind='overlap', cls=['Derivative', 'Gradient', 'Jacobian', 'Hessdiag', 'Hessian'][(j + shard) % 5],
                   method=str(rng.choice(['central', 'forward', 'backward', 'complex'])), threads=bool(j % 2),
                   at=int(rng.integers(1, 6)), xa=float(np.round(rng.uniform(0.3, 1.5), 3)), xb=float(np.round(rng.uniform(-1.5, -0.3), 3)))
    for j in range(8 if tier == 'quick' else 80):
        # a column of points against a row of parameters: x of shape (k, 1), f(x) of shape (k, m) by broadcasting
        yield dict(kind='broadcast', method=str(rng.choice(['central', 'forward', 'backward', 'complex', 'multicomplex'])), n=int(rng.integers(1, 3)),
                   order=int(rng.choice([2, 4])), k=int(rng.integers(2, 5)), m=int(rng.integers(2, 5)), seed=int(rng.integers(0, 2 ** 31)),
                   trailing=bool(rng.random() < 0.7))
    for j in range(6 if tier == 'quick' else 60):
        # complex-valued results of which the *first* entry happens to be exactly real (the rest is genuinely complex)
        yield dict(kind='first_entry_real', cls=['Derivative', 'Jacobian'][j % 2], method=str(rng.choice(['central', 'central', 'forward', 'backward'])),
                   order=int(rng.choice([2, 4])), seed=int(rng.integers(0, 2 ** 31)))
    for j in range(4 if tier == 'quick' else 30):
        # functions that hand back their argument, or a view of it (identity, reversal, selection, reshape)
        yield dict(kind='view_output', which=['identity', 'reversed', 'tail', 'asarray', 'ravel'][(j + shard) % 5],
                   method=str(rng.choice(['central', 'forward', 'backward', 'complex'])), order=int(rng.choice([2, 4])),
                   n=int(rng.integers(2, 6)), seed=int(rng.integers(0, 2 ** 31)))
    ncells = sum((D.NMAX[m] + 1) * 8 for m in D.METHODS)
    k = shard
    for i in range(total):
        if i % 4 == 3:
            cls = CLASSES[(i // 4 + shard) % 4]
            dim = int(rng.integers(1, 5))
            method = str(rng.choice(MULTI_METHODS[cls]))
            stat = [bool(v) for v in rng.random(size=dim) < 0.15]
            spec = D.draw_step_spec(rng, method, 2 if cls in ('Hessdiag', 'Hessian') else 1)
            if any(stat) and rng.random() < 0.5:
                spec = dict(kind='scalar', value=float(10.0 ** rng.uniform(-5, -2.5)))
            yield dict(kind='multi', cls=cls, dim=dim, method=method,
                       order=int(rng.choice([2, 4])) if cls != 'Hessian' else None,
                       g=[int(v) for v in rng.integers(0, len(G_PROGS), size=dim)],
                       x=[float(np.round(v, 4)) for v in rng.uniform(-2, 2, size=dim)],
                       stationary=stat,
                       m=int(rng.integers(1, 4)), beta=float(np.round(rng.uniform(-2, 2), 3)),
                       seed=int(rng.integers(0, 2 ** 31)), step=spec)
            continue
        if k < ncells:
            method, n, order = D.draw_config(rng, k)
            k += nshards
        else:
            method, n, order = D.draw_config(rng)
        c = D.make_case(rng, method, n, order, complex_valued=(method in ('central', 'forward', 'backward')
                                                               and rng.random() < 0.05))
        if c is not None:
            c['kind'] = 'derivative'
            yield c


# ------------------------------------------------------------------------------ record contract
def check_record(ctx, case, value, info, rec, steps, where, first_call_is_x=True, table_rows=None, f_finite=True):
    value = np.asarray(value)
    est, fstep, idx = np.asarray(info.error_estimate), np.asarray(info.final_step), np.asarray(info.index)
    ctx.count('record_asserted')
    # f_value equals f(x): bit-identical to the first recorded evaluation at x
    if first_call_is_x and rec.calls and rec.calls[0].value is not None:
        fv = np.asarray(info.f_value)
        first = rec.calls[0].value
        if not (fv.shape == first.shape or fv.size == first.size) or \
                np.ascontiguousarray(fv).astype(first.dtype).tobytes() != np.ascontiguousarray(first).tobytes():
            if not (np.all(np.isnan(fv)) and np.all(np.isnan(first))):
                ctx.reject('f_value_is_not_f_of_x', observed=fv.ravel()[:4], expected=first.ravel()[:4], where=where)
                return False
    # one estimate / final step per entry of the result, broadcast-compatible
    for name, arr in (('error_estimate', est), ('final_step', fstep)):
        try:
            np.broadcast_shapes(arr.shape, value.shape)        # broadcast-compatible with the result ...
            ok = arr.size == value.size                         # ... with exactly one entry per result entry
        except ValueError:
            ok = False
        if not ok:
            ctx.reject('%s_shape_not_one_entry_per_result_entry' % name, observed=list(arr.shape),
                       expected=list(value.shape), where=where)
            return False
    fin = np.isfinite(value.ravel())
    e = np.abs(est.ravel())
    if np.iscomplexobj(est) and np.any(est.imag != 0):
        ctx.reject('error_estimate_not_real', observed=est.ravel()[:4], where=where)
        return False
    e_real = np.real(est.ravel())
    if not f_finite:
        # some evaluation of f overflowed or left its domain: estimates may legitimately be inf/nan there; only the
        # sign is still asserted
        ctx.count('record:finiteness_of_estimate_not_asserted(f was non-finite on some step)')
        fin = fin & np.isfinite(e_real)
    if np.any(e_real[fin] < 0) or not np.all(np.isfinite(e_real[fin])):
        ctx.reject('error_estimate_negative_or_nonfinite_for_finite_value', observed=e_real[:6],
                   detail=dict(value=value.ravel()[:6]), where=where)
        return False
    if steps:
        mags = [float(np.min(np.abs(s))) for s in steps], [float(np.max(np.abs(s))) for s in steps]
        lo, hi = min(mags[0]), max(mags[1])
        fs = np.abs(fstep.ravel())
        if np.any(fs < lo * (1 - 1e-12)) or np.any(fs > hi * (1 + 1e-12)):
            ctx.reject('final_step_outside_generated_steps', observed=fs[:6], expected=[lo, hi], where=where)
            return False
    if table_rows is not None and idx.size:
        flat = idx.ravel()
        if np.any(flat < 0) or np.any(flat >= table_rows * max(value.size, 1)):
            ctx.reject('index_outside_extrapolation_table', observed=flat[:6], expected=table_rows * value.size, where=where)
            return False
    return True


def honest(ctx, cls, err, est, floor, key, facts, detail):
    bound = K_EST * est + C_FLOOR * floor
    ctx.count('honesty_asserted:' + cls)
    if est > 0 and err > C_FLOOR * floor:
        ctx.maximum('(err - C_f*floor)/est:%s' % cls, (err - C_FLOOR * floor) / est, detail)
    if err > 10 * C_FLOOR * floor:
        ctx.count('estimate_decided_the_case')
        ctx.nontrivial(key)
    if not err <= bound:
        ctx.reject('error_exceeds_estimate_and_rounding_floor', observed=detail.get('value'), expected=detail.get('exact'),
                   detail=dict(detail, err=err, est=est, floor=floor, bound=bound), **facts)
        return False
    return True


# ------------------------------------------------------------------------------ Derivative
def run_derivative(case, ctx):
    method, n, order = case['method'], case['n'], case['order']
    res = D.run_case(case, ctx)
    if res['outcome'] == 'raised':
        ctx.count('raised(decided by C01)')
        return
    tree, prog = res['tree'], X.to_str(res['tree'])
    rec = res['rec']
    # record contract (the recorder kept no values in D.run_case: evaluate f(x) once more for the f_value check)
    f = X.compile_np(tree)
    with np.errstate(all='ignore'):
        fx = np.asarray(f(np.asarray(res['x'])))
    info = res['info']
    fv = np.asarray(info.f_value)
    if np.ascontiguousarray(fv).astype(fx.dtype).tobytes() != np.ascontiguousarray(fx).tobytes() and not (
            np.all(np.isnan(fv)) and np.all(np.isnan(fx))):
        ctx.reject('f_value_is_not_f_of_x', observed=fv.ravel()[:4], expected=fx.ravel()[:4], where='Derivative')
        return
    steps = res['obs'].get('steps') if n > 0 else None
    if not check_record(ctx, case, res['value'], info, rec, steps, 'Derivative', first_call_is_x=False,
                        table_rows=res['obs'].get('table_rows'), f_finite=res['f_finite']):
        return
    if n == 0 or n > D.NMAX[method]:
        return
    for e, x_e, v, est_e, fs_e in D.elements(case, res):
        m = D.oracle_for_element(case, res, e, x_e, v, est_e, fs_e)
        if not m.in_scope:
            ctx.count(m.skip)
            continue
        if est_e is None or fs_e is None or not np.isfinite(v):
            if not np.isfinite(v):
                ctx.count('nonfinite_result_in_scope(decided by C01)')
            continue
        chat = None
        # rounding floor at the reported final step
        rho_f = m.rad * fs_e
        if m.cancel_free:
            rho_f = max(rho_f, min(1.0, m.rho_valid))
        # the rounding floor at the reported step, capped by what the best window could have achieved: a step at which
        # rounding swamps everything does not excuse a (near) zero estimate next to a wrong value
        floor_uncapped = EPS * m.lam * max(m.S_at(rho_f), (m.cn_noise / EPS) if m.cancel_free else 0.0)
        floor = min(floor_uncapped, CAP_E * m.E / C_FLOOR)
        if case['step'].get('hostile'):
            ctx.count('hostile_tail_elements_in_scope')
        if case.get('stationary'):
            ctx.count('stationary_point_entries_asserted')
        steps_all = res['obs'].get('steps') or []
        honest(ctx, 'Derivative', m.err, est_e, floor, ('Derivative', method, n, order, prog),
               dict(cls='Derivative', method=method, n=n, order=order, full_window=bool(m.full_window),
                    chosen_step_beyond_validity_radius=bool(m.chosen_beyond_validity),
                    majority_of_table_rows_collapsed=bool(m.frac_collapsed >= 0.5),
                    error_explained_by_rounding_at_chosen_step=bool(m.err <= 10 * C_FLOOR * floor_uncapped),
                    # a single difference quotient (nothing to difference): the placeholder is (|v| eps + h) * 12.7,
                    # never below the step itself
                    single_row_estimate_below_its_step=bool(res['obs'].get('rich_m_old') == 1 and est_e < abs(fs_e)),
                    operators=sorted(X.operators(tree)), step_kind=case['step']['kind']),
               dict(program=prog, x=x_e, value=complex(v), exact=complex(m.exact), final_step=fs_e, W=m.W,
                    nsteps=m.nsteps, rho_valid=m.rho_valid, lam=m.lam))
    if len(ctx.samples) < 3:
        ctx.sample(dict(program=prog, x=case['x'], method=method, n=n, order=order,
                        value=res['value'].ravel()[:2], error_estimate=np.asarray(info.error_estimate).ravel()[:2],
                        final_step=np.asarray(info.final_step).ravel()[:2]))


# ------------------------------------------------------------------------------ multivariate classes
def run_multi(case, ctx):
    import numdifftools as nd
    cls, dim, method = case['cls'], case['dim'], case['method']
    rng = np.random.default_rng(case['seed'])
    gtrees = [G_PROGS[i] for i in case['g']]
    # some coordinates sit exactly on a stationary point of their g_k (exact partial derivative 0, truncation error not 0)
    gtrees = [D.subst(t, D.stationary_inner(xk)) if st else t
              for t, st, xk in zip(gtrees, case.get('stationary') or [False] * dim, case['x'])]
    gfun = [X.compile_np(t) for t in gtrees]
    x = np.array(case['x'], dtype=float)
    beta = case['beta'] if dim > 1 else 0.0
    p, q = (0, dim - 1) if dim > 1 else (0, 0)
    mrows = case['m'] if cls == 'Jacobian' else 1
    A = np.round(rng.uniform(-2, 2, size=(mrows, dim)), 3)
    A[np.abs(A) < 0.2] = 0.5
    if cls != 'Jacobian':
        A[:] = 1.0

    def F(z):
        comps = []
        for i in range(mrows):
            s = 0.0
            for k in range(dim):
                s = s + A[i, k] * gfun[k](z[k])
            if dim > 1:
                s = s + beta * z[p] * z[q]
            comps.append(s)
        if cls == 'Jacobian':
            return np.array(comps)
        return comps[0]
    rec = Recorder(F, keep_values=True)
    kw = dict(method=method, full_output=True, step=D.build_step(nd, case['step']))
    if cls != 'Hessian':
        kw['order'] = case['order']
    D._OBS.clear()
    try:
        with np.errstate(all='ignore'):
            if case['seed'] % 4 == 0:
                kw2 = dict(kw)
                kw2.pop('full_output')
                obj = getattr(nd, cls)(rec, **kw2)
                obj.full_output = True            # switched on after construction
                ctx.count('full_output_set_after_construction')
            else:
                obj = getattr(nd, cls)(rec, **kw)
            x_given = x.copy()
            if cls == 'Gradient' and dim == 4 and case['seed'] % 3 == 0:
                # the point as a 2 x 2 matrix (C or Fortran order): the record must still line up with the flat gradient
                x_given = x.reshape(2, 2).copy(order='F' if case['seed'] % 2 else 'C')
                ctx.count('gradient_of_matrix_x_record_asserted')
            val, info = obj(x_given)
    except Exception as exc:
        ctx.count('multi_raised:%s(decided by C03/C04/C11)' % type(exc).__name__)
        return
    obs = D._OBS
    steps = obs.get('steps')
    val = np.asarray(val)
    if not check_record(ctx, case, val, info, rec, steps, cls, table_rows=obs.get('table_rows'),
                        f_finite=all(c.out_finite is not False for c in rec.calls)):
        return
    nder = 2 if cls in ('Hessdiag', 'Hessian') else 1
    jc = D.jctx()
    mp = jc.mp
    K = nder + 12
    coefs, noises = [], []
    reach = max(float(np.max(np.abs(s))) for s in steps) * (2.0 if cls in ('Hessian', 'Hessdiag') else 1.0) if steps else 1.0
    for k in range(dim):
        sc = D.segment_scan(gtrees[k], float(x[k]), reach, 'central', method in ('complex', 'multicomplex'))
        if not sc.ok:
            ctx.count('skipped_singular_segment')
            return
        c, nz = jets.eval_jet(gtrees[k], float(x[k]), K, jc, log_formula_noise=(method == 'multicomplex'))
        coefs.append([float(v) for v in c])
        noises.append(nz)
    fmag = sum(abs(coefs[k][0]) + noises[k] / EPS for k in range(dim)) * float(np.max(np.abs(A))) + abs(beta * x[p] * x[q])
    lam = max(obs.get('rule_abs', 1.0), 1.0) * max(obs.get('rich_abs', 1.0), 1.0)
    est = np.abs(np.asarray(info.error_estimate, dtype=float)).reshape(val.shape)
    fst = np.abs(np.asarray(info.final_step)).reshape(val.shape)
    # exact values
    g1 = np.array([coefs[k][1] for k in range(dim)])
    g2 = np.array([2 * coefs[k][2] for k in range(dim)])
    if cls in ('Gradient', 'Jacobian'):
        exact = A * g1[None, :]
        if dim > 1:
            exact[:, p] += beta * x[q]
            exact[:, q] += beta * x[p]
        exact = exact.reshape(val.shape) if exact.size == val.size else None
    elif cls == 'Hessdiag':
        exact = g2.copy()
    else:
        exact = np.diag(g2)
        if dim > 1:
            exact[p, q] += beta
            exact[q, p] += beta
    if exact is None or np.shape(exact) != val.shape:
        ctx.count('multi_shape_mismatch(decided by C03/C04)')
        return
    cancel_free = method == 'multicomplex' or (method == 'complex' and cls in ('Gradient', 'Jacobian') and (case['order'] or 2) < 4)
    it = np.nditer(val, flags=['multi_index'])
    for _ in it:
        ix = it.multi_index
        v = complex(val[ix])
        ex = float(exact[ix])
        err = abs(v - ex)
        h = float(fst[ix])
        if not np.isfinite(v.real) or h <= 0:
            continue
        floor = EPS * lam * math.factorial(nder) * fmag / (max(h, 1.0) if cancel_free else h) ** nder
        if nder == 1 and (case.get('stationary') or [False] * dim)[ix[-1] if ix else 0]:
            ctx.count('stationary_point_entries_asserted')
        honest(ctx, cls, err, float(est[ix]), floor, (cls, method, case['order'], tuple(case['g']), ix),
               dict(cls=cls, method=method, n=nder, order=case['order'], full_window=True,
                    # every g_k of the family is analytic within radius >= 1 of a real point (nearest singularities +-i,
                    # +-i pi/2); a reported final step above 1 lies beyond the validity radius of its Taylor series (0.7 when a
                    # coordinate goes through t -> x0 + d^2 + d^3, which maps |d| <= 0.75 into the unit disc)
                    chosen_step_beyond_validity_radius=bool(h > (0.7 if any(case.get('stationary') or []) else 1.0)),
                    operators=sorted(set().union(*[X.operators(t) for t in gtrees])), step_kind=case['step']['kind']),
               dict(program=[X.to_str(t) for t in gtrees], x=case['x'], value=v, exact=ex, final_step=h, entry=list(ix)))
    if len(ctx.samples) < 5:
        ctx.sample(dict(cls=cls, method=method, programs=[X.to_str(t) for t in gtrees], x=case['x'],
                        value=val.ravel()[:3], exact=np.asarray(exact).ravel()[:3],
                        error_estimate=est.ravel()[:3]))


def run_overlap(case, ctx):
    """f_value equals f(x) of *that* call also when two calls of one object overlap: call A is paused inside one of its function
    evaluations while call B (another point) runs to completion - from a second thread, or because the function itself uses the
    object (re-entrant use).  Only the f_value clause is judged for such calls."""
    import threading
    import numdifftools as nd
    cls = case['cls']
    multi = cls != 'Derivative'

    def base(z):
        if not multi:
            return np.exp(0.5 * z) + z * z
        v = np.exp(0.5 * z[0]) + z[0] * z[1] + z[1] * z[1]
        return np.array([v, 2.0 * v]) if cls == 'Jacobian' else v
    xa = np.array([case['xa'], 0.25]) if multi else case['xa']
    xb = np.array([case['xb'], -0.5]) if multi else case['xb']
    state = dict(n=0, b=None, busy=False)
    obj_box = []
    go_b, b_done = threading.Event(), threading.Event()

    def f(z):
        me = threading.current_thread().name
        if me != 'vf-B' and not state['busy']:
            state['n'] += 1
            if state['n'] == case['at']:
                state['busy'] = True
                if case['threads']:
                    go_b.set()
                    b_done.wait(60)
                else:
                    try:
                        state['b'] = obj_box[0](xb)
                    except Exception as exc:
                        state['b'] = exc
                state['busy'] = False
        return base(z)
    kw = dict(method=case['method'], full_output=True)
    obj_box.append(getattr(nd, cls)(f, **kw))

    def run_b():
        go_b.wait(60)
        try:
            state['b'] = obj_box[0](xb)
        except Exception as exc:
            state['b'] = exc
        finally:
            b_done.set()
    tb = None
    if case['threads']:
        tb = threading.Thread(target=run_b, name='vf-B')
        tb.start()
    try:
        with np.errstate(all='ignore'):
            a = obj_box[0](xa)
    except Exception as exc:
        a = exc
    if tb is not None:
        go_b.set()
        tb.join(60)
    ctx.count('overlapping_calls_of_one_object:' + ('threads' if case['threads'] else 'reentrant'))
    for label, res, xx in (('A', a, xa), ('B', state['b'], xb)):
        if res is None or isinstance(res, Exception):
            ctx.count('overlapping_call_raised_or_not_reached')
            continue
        fv = np.asarray(res[1].f_value)
        want = np.asarray(base(np.asarray(xx, dtype=float)))
        ctx.count('overlapping_f_value_asserted')
        if fv.shape != want.shape or fv.tobytes() != want.astype(fv.dtype).tobytes():
            ctx.reject('f_value_differs_from_f_at_x', observed=fv, expected=want,
                       detail=dict(call=label, overlapped=('second thread' if case['threads'] else 're-entrant use'), cls=cls), cls=cls)
            return
    ctx.nontrivial(('overlap', cls, case['method'], case['threads']))


def run_broadcast(case, ctx):
    """x of shape (k, 1) (or (1, k)) and f(x) = sin(w * x) with a row (column) of rates w: the result has shape (k, m); entry
    (i, j) is the derivative of sin(w_j t) at t_i, and its record entry is the estimate / step of *that* entry."""
    import numdifftools as nd
    rng = np.random.default_rng(case['seed'])
    k, m, n, method = case['k'], case['m'], case['n'], case['method']
    t = rng.choice([-1.0, 1.0], size=k) * 10.0 ** rng.uniform(-0.5, 1.6, size=k)        # points of different magnitudes
    w = np.round(rng.uniform(0.3, 1.5, size=m), 3)
    if case['trailing']:
        x, wv = t.reshape(k, 1), w.reshape(1, m)
        T_, W_ = np.broadcast_arrays(x, wv)
    else:
        x, wv = t.reshape(1, k), w.reshape(m, 1)
        T_, W_ = np.broadcast_arrays(x, wv)
    rec = Recorder(lambda z: np.sin(wv * z))
    D._OBS.clear()
    try:
        with np.errstate(all='ignore'):
            val, info = nd.Derivative(rec, method=method, n=n, order=case['order'], full_output=True)(x.copy())
    except Exception as exc:
        ctx.reject('raised', observed='%s: %s' % (type(exc).__name__, str(exc)[:150]), broadcast=True, method=method, n=n)
        return
    val = np.asarray(val)
    exact = W_ ** n * (np.cos(W_ * T_) if n == 1 else -np.sin(W_ * T_))
    ctx.count('broadcast_cases')
    est = np.asarray(info.error_estimate, dtype=float)
    fs = np.abs(np.asarray(info.final_step, dtype=float))
    if val.shape != exact.shape or est.shape != val.shape or fs.shape != val.shape:
        ctx.reject('record_shape', observed=[list(val.shape), list(est.shape), list(fs.shape)], expected=list(exact.shape), broadcast=True)
        return
    steps = [np.abs(np.broadcast_to(np.asarray(s_, dtype=float), x.shape)) for s_ in (D._OBS.get('steps') or [])]
    for idx in np.ndindex(*val.shape):
        ctx.count('broadcast_entries_asserted')
        err = abs(float(val[idx]) - float(exact[idx]))
        scale = float(W_[idx]) ** n
        if not err <= 1000.0 * abs(float(est[idx])) + 1e-7 * scale:
            ctx.reject('error_exceeds_estimate', observed=float(val[idx]), expected=float(exact[idx]),
                       detail=dict(est=float(est[idx]), entry=list(idx), point=float(T_[idx]), rate=float(W_[idx])), broadcast=True, method=method, n=n)
            return
        if steps:
            # the steps generated for the point of this entry (the step arrays have the shape of x)
            xi = idx[0] if case['trailing'] else idx[1]
            mine = [float(s_[(xi, 0) if case['trailing'] else (0, xi)]) for s_ in steps]
            if not any(abs(float(fs[idx]) - v) <= 4 * EPS * v for v in mine):
                ctx.reject('final_step_outside_generated_steps', observed=float(fs[idx]), expected=[min(mine), max(mine)],
                           detail=dict(entry=list(idx)), broadcast=True, method=method, n=n)
                return
    ctx.nontrivial(('broadcast', method, n, case['trailing']))


def run_first_entry_real(case, ctx):
    """A complex-valued function with the real-step methods, where the first entry of every table of estimates has an imaginary
    part that is exactly zero: f(z) = sin z + i (z - x_0)^2 on the points [x_0, x_1, x_2] (its central differences at x_0 have
    imaginary part exactly 0), or a Jacobian whose first component function is real."""
    import numdifftools as nd
    rng = np.random.default_rng(case['seed'])
    x = np.round(np.sort(rng.uniform(0.2, 2.5, size=3)), 3)
    x[0] = float(rng.choice([0.5, 1.0, 0.25, 0.75]))
    method, order = case['method'], case['order']
    try:
        with np.errstate(all='ignore'):
            if case['cls'] == 'Derivative':
                val, info = nd.Derivative(lambda z: np.sin(z) + 1j * (z - x[0]) * (z - x[0]), method=method, order=order, full_output=True)(x.copy())
                exact = np.cos(x) + 2j * (x - x[0])
            else:
                val, info = nd.Jacobian(lambda z: np.array([np.sin(z[0]) * z[1], np.exp(1j * z[0]) * z[2], z[1] * z[2] * (1 + 2j)]),
                                        method=method, order=order, full_output=True)(x.copy())
                exact = np.array([[np.cos(x[0]) * x[1], np.sin(x[0]), 0.0],
                                  [1j * np.exp(1j * x[0]) * x[2], 0.0, np.exp(1j * x[0])],
                                  [0.0, x[2] * (1 + 2j), x[1] * (1 + 2j)]])
    except Exception as exc:
        ctx.reject('raised', observed='%s: %s' % (type(exc).__name__, str(exc)[:150]), first_entry_real=True, method=method)
        return
    val = np.asarray(val)
    est = np.abs(np.asarray(info.error_estimate)).astype(float)
    ctx.count('first_entry_real_cases')
    if val.shape != exact.shape or est.shape != val.shape:
        ctx.reject('record_shape', observed=[list(val.shape), list(est.shape)], expected=list(exact.shape), first_entry_real=True)
        return
    err = np.abs(val - exact)
    bound = 1000.0 * est + 1e-8 * (1.0 + np.abs(exact))
    ctx.count('first_entry_real_entries_asserted', int(err.size))
    if np.any(err > bound):
        idx = np.unravel_index(int(np.argmax(err - bound)), err.shape)
        ctx.reject('error_exceeds_estimate', observed=complex(val[idx]), expected=complex(exact[idx]),
                   detail=dict(est=float(est[idx]), entry=[int(v) for v in idx], result_dtype=str(val.dtype)), first_entry_real=True, method=method, cls=case['cls'])
        return
    ctx.nontrivial(('first_entry_real', case['cls'], method, order))


def run_view_output(case, ctx):
    """f returns its argument itself or a view of it (lambda x: x, x[::-1], x[1:], np.asarray(x), x.ravel()): the Jacobian is the
    identity / a permutation / a selection matrix, and its record is honest like any other."""
    import numdifftools as nd
    rng = np.random.default_rng(case['seed'])
    n = case['n']
    x = np.round(rng.uniform(-2, 2, size=n), 3)
    f = dict(identity=lambda z: z, reversed=lambda z: z[::-1], tail=lambda z: z[1:], asarray=lambda z: np.asarray(z),
             ravel=lambda z: z.ravel())[case['which']]
    eye = np.eye(n)
    exact = dict(identity=eye, reversed=eye[::-1], tail=eye[1:], asarray=eye, ravel=eye)[case['which']]
    try:
        with np.errstate(all='ignore'):
            val, info = nd.Jacobian(f, method=case['method'], order=case['order'], full_output=True)(x.copy())
    except Exception as exc:
        ctx.reject('raised', observed='%s: %s' % (type(exc).__name__, str(exc)[:150]), view_output=True, method=case['method'])
        return
    val = np.asarray(val, dtype=float)
    est = np.abs(np.asarray(info.error_estimate, dtype=float))
    ctx.count('view_output_cases')
    if val.shape != exact.shape or est.shape != val.shape:
        ctx.reject('record_shape', observed=[list(val.shape), list(est.shape)], expected=list(exact.shape), view_output=True)
        return
    err = np.abs(val - exact)
    ctx.count('view_output_entries_asserted', int(err.size))
    if np.any(err > 1000.0 * est + 1e-9):
        idx = np.unravel_index(int(np.argmax(err - 1000.0 * est)), err.shape)
        ctx.reject('error_exceeds_estimate', observed=float(val[idx]), expected=float(exact[idx]),
                   detail=dict(est=float(est[idx]), entry=[int(v) for v in idx], function=case['which']), view_output=True, method=case['method'])
        return
    ctx.nontrivial(('view_output', case['which'], case['method']))


def run_selection(case, ctx):
    """The selection step itself (_Limit._get_best_estimate, the function every class ends in) on synthetic tables with exact ties in
    the error column - adjacent, at both ends of the step sequence, separated by nan rows: the record handed out is *one row* of the
    table (value, error and step belong together) and that row carries the smallest error of its column."""
    from numdifftools.limits import _Limit
    rng = np.random.default_rng(case['seed'])
    rows, cols = case['rows'], case['cols']
    der = rng.normal(size=(rows, cols))
    levels = np.array([0.0, 1e-13, 1e-13, 1e-9, 1e-6, np.nan])
    errors = levels[rng.integers(0, len(levels), size=(rows, cols))]
    pattern = case['pattern']
    for j in range(cols):
        if pattern == 'ends':           # the smallest error at the first and the last row(s) only
            errors[:, j] = np.where(np.isnan(errors[:, j]), 1e-6, np.maximum(errors[:, j], 1e-9))
            errors[0, j] = errors[-1, j] = 0.0
            if rows > 4 and rng.random() < 0.5:
                errors[1, j] = 0.0
        elif pattern == 'nan_between':  # ties separated by rows without an estimate
            errors[:, j] = 1e-9
            k0 = int(rng.integers(0, rows - 2))
            errors[k0, j] = errors[min(k0 + 2, rows - 1), j] = 1e-13
            errors[k0 + 1, j] = np.nan
        if np.all(np.isnan(errors[:, j])):
            errors[0, j] = 1e-9
    # equal values where the errors are equal and zero (as a table of a flat function would have), different elsewhere
    der = np.where(errors == 0.0, np.round(der[0:1, :], 3), der)
    der = np.where(np.isnan(errors), np.nan, der)
    steps = np.repeat((0.5 ** np.arange(rows))[:, None], cols, axis=1)
    err_in = errors.copy()
    try:
        with np.errstate(all='ignore'):
            val, info = _Limit._get_best_estimate(der.copy(), err_in, steps.copy(), (cols,))
    except Exception as exc:
        ctx.count('selection_function_not_callable_as_documented(%s)' % type(exc).__name__)
        return
    ctx.count('selection_tables_asserted')
    val, err, fs = np.ravel(val), np.ravel(info.error_estimate), np.ravel(info.final_step)
    for j in range(cols):
        # (err_in now holds the errors the selection worked on: the outlier penalty is added in place)
        ok = [r for r in range(rows) if (der[r, j] == val[j] or (np.isnan(der[r, j]) and np.isnan(val[j]))) and err_in[r, j] == err[j]
              and steps[r, j] == fs[j]]
        colmin = np.nanmin(err_in[:, j])
        if not ok or not err[j] == colmin:
            ctx.reject('record_is_not_one_row_of_the_table_with_the_smallest_error', observed=[float(val[j]), float(err[j]), float(fs[j])],
                       expected=dict(column_minimum=float(colmin)),
                       detail=dict(column=j, pattern=pattern, der=der[:, j], errors=err_in[:, j], steps=steps[:, j]), where='selection')
            return
    ctx.nontrivial(('selection', pattern, rows, cols))


def run_case(case, ctx):
    if case['kind'] == 'selection':
        return run_selection(case, ctx)
    if case['kind'] == 'view_output':
        return run_view_output(case, ctx)
    if case['kind'] == 'first_entry_real':
        return run_first_entry_real(case, ctx)
    if case['kind'] == 'broadcast':
        return run_broadcast(case, ctx)
    if case['kind'] == 'overlap':
        return run_overlap(case, ctx)
    if case['kind'] == 'derivative':
        run_derivative(case, ctx)
    else:
        run_multi(case, ctx)


def classify(wit):
    f = wit.get('facts') or {}
    if wit.get('check') != 'error_exceeds_estimate_and_rounding_floor':
        return None
    if f.get('method') == 'multicomplex' and set(f.get('operators') or []) & {'arctan', 'arcsin'}:
        return 'multicomplex-log-formula-cancellation'
    if f.get('cls') == 'Derivative' and f.get('full_window') is False and not f.get('single_row_estimate_below_its_step'):
        return 'estimate-without-extrapolation-is-a-placeholder'
    if f.get('chosen_step_beyond_validity_radius'):
        return 'selector-picked-steps-beyond-validity-radius'
    if f.get('cls') == 'Derivative' and f.get('error_explained_by_rounding_at_chosen_step'):
        return 'selector-picked-rounding-dominated-step'
    return None


TECHNIQUE = ('runtime monitoring: contracts on the (value, info) pair of all five classes with full_output=True, boundary '
             'recorder for f_value, sys.monitoring observers for the generated steps / applied weights / table size; jet oracle')
LEVEL_TEXT = ('exploration: every observed (value, info) record is decided by the exact record contract and by the honesty '
              'inequality against the exact derivative from jets')
LEVEL_NOTE = 'K = 300 and C_f = 10 are calibrated constants (see DESIGN.md); a uniform shrink of all estimates by < ~30x is not detectable'
