"""C19 - nd_scipy wrappers return the Jacobian/gradient and respect bounds."""
import numpy as np

from vf.boundary import Recorder

ID = 'C19'
NSHARDS = dict(quick=4, thorough=16)
BUDGET = dict(quick=1600, thorough=50000)
ANCHORS = ['numdifftools.nd_scipy:Jacobian.__call__', 'numdifftools.nd_scipy:Gradient.__call__']
MIN_COUNTERS = dict(quick={'jacobian_entries_asserted': 5000, 'gradient_asserted': 300, 'bounds_points_asserted': 3000,
                           'forwarding_asserted': 1000, 'method:central': 200, 'method:forward': 200,
                           'method:complex': 200, 'bounds_active_cases': 200, 'gradient_of_non_contiguous_matrix_x': 40},
                    thorough={'jacobian_entries_asserted': 100000})
RULE = ('x also as list / tuple, Gradient of Fortran-ordered and strided matrices, and for affine maps with the complex method coordinates of magnitude 1e-307..1e-285, 1e20..1e120 and exact zeros. ' 
        'n in 1..6, m in 1..5, affine f = A x + b and smooth nonlinear f = sin(Ax)*exp(Bx) + c (analytic Jacobian), methods '
        'central/forward/complex, relative step None or given, random boxes with x inside or exactly on the boundary, extra '
        'positional/keyword arguments; every x passed to f recorded. distinct non-trivial = (n, m, method, family, bounds '
        'active?, step given?) with a Jacobian that is neither symmetric nor constant along rows')
ASSUMPTIONS = ['complex method on affine f: exact to 16*eps*(|A||x|+|b|)/|x_j|-scaled rounding, i.e. |J-A| <= 64 eps max|A| ; '
               'central/forward on affine f within 1e-6*max|A| ; smooth f within 1e-5 relative to max|J| (scipy default steps)',
               'option forwarding observed at the boundary: central evaluates on both sides of every coordinate, complex takes '
               'purely imaginary steps, a given relative step s yields offsets within [0.5, 2] * s*|x_j| (no bounds active)',
               'bounds: lb <= Re z <= ub for every recorded evaluation point, exactly']
EPS = 2.0 ** -52


def setup(ctx, mon):
    import numdifftools.nd_scipy  # noqa
    for a in ANCHORS:
        mon.watch(a)


def cases(rng, tier, shard, nshards):
    for j in range(6 if tier == 'quick' else 40):
        # two calls of one object with different extra arguments overlap (f itself uses the object, or a second thread does)
        yield dict(kind='overlap', method=['central', 'forward', 'complex'][(j + shard) % 3], gradient=bool(j % 2), threads=bool((j // 2) % 2),
                   at=int(rng.integers(1, 4)), seed=int(rng.integers(0, 2 ** 31)), n=int(rng.integers(2, 5)))
    for j in range(8 if tier == 'quick' else 60):
        # Gradient / Jacobian of an affine map far from the origin with every default (the default step is relative to |x|)
        yield dict(n=int(rng.integers(1, 7)), m=int(rng.integers(1, 4)), method=['forward', 'central'][j % 2], family='affine',
                   seed=int(rng.integers(0, 2 ** 31)), step=None, bounds='none', gradient=bool((j // 2) % 2 == 0), xshape='vector', large_x=True)
    for i in range(BUDGET[tier] // nshards):
        n, m = int(rng.integers(1, 7)), int(rng.integers(1, 6))
        yield dict(n=n, m=m, method=['central', 'forward', 'complex'][i % 3],
                   family=str(rng.choice(['affine', 'smooth'])), seed=int(rng.integers(0, 2 ** 31)),
                   step=None if rng.random() < 0.6 else float(10.0 ** rng.uniform(-7, -4)),
                   bounds=str(rng.choice(['none', 'box', 'on_lower', 'on_upper', 'tight', 'scalar_zero_lower', 'scalar_zero_upper', 'scalar', 'near_face'])),
                   gradient=bool(rng.random() < 0.3), xshape=str(rng.choice(['vector', 'matrix', 'matrix', 'scalar'])))


def run_overlap(case, ctx):
    """Extra arguments belong to the call they were given to: call A (scale 2) is paused inside one of its evaluations of f while
    call B (scale 3, other keyword) runs to completion on the same object; A returns 2 A_mat, B returns 3 A_mat."""
    import threading
    import numdifftools.nd_scipy as nds
    rng = np.random.default_rng(case['seed'])
    n = case['n']
    m = 1 if case['gradient'] else 3
    A = np.round(rng.normal(size=(m, n)), 3)
    x = np.round(rng.uniform(-1, 1, size=n), 3)
    state = dict(count=0, b=None, busy=False)
    box = []
    go_b, b_done = threading.Event(), threading.Event()

    def f(z, s=1.0, shift=0.0):
        if threading.current_thread().name != 'vf-B' and not state['busy'] and s == 2.0:
            state['count'] += 1
            if state['count'] == case['at']:
                state['busy'] = True
                if case['threads']:
                    go_b.set()
                    b_done.wait(60)
                else:
                    state['b'] = box[0](x.copy(), 3.0, shift=-1.5)
                state['busy'] = False
        v = s * (A @ np.asarray(z).ravel()) + shift
        return v[0] if case['gradient'] else v
    box.append((nds.Gradient if case['gradient'] else nds.Jacobian)(f, method=case['method']))

    def run_b():
        go_b.wait(60)
        try:
            state['b'] = box[0](x.copy(), 3.0, shift=-1.5)
        except Exception as exc:
            state['b'] = exc
        finally:
            b_done.set()
    tb = None
    if case['threads']:
        tb = threading.Thread(target=run_b, name='vf-B')
        tb.start()
    try:
        a = box[0](x.copy(), 2.0, shift=0.5)
    except Exception as exc:
        a = exc
    if tb is not None:
        go_b.set()
        tb.join(60)
    ctx.count('overlapping_calls_with_different_arguments:' + ('threads' if case['threads'] else 'reentrant'))
    for label, res, sc in (('A', a, 2.0), ('B', state['b'], 3.0)):
        if res is None or isinstance(res, Exception):
            ctx.reject('raised', observed=repr(res)[:200], detail=dict(call=label, overlapping=True), method=case['method'])
            return
        J = np.asarray(res, dtype=float).reshape(m, n)
        ctx.count('overlapping_results_asserted')
        tol = 1e-6 * (1.0 + float(np.max(np.abs(A))) * sc * (1.0 + float(np.max(np.abs(x)))))
        if not np.all(np.abs(J - sc * A) <= tol):
            ctx.reject('jacobian_entries', observed=J, expected=sc * A, detail=dict(call=label, overlapping=('second thread' if case['threads'] else 're-entrant use')),
                       method=case['method'], family='affine')
            return
    ctx.nontrivial(('overlap', case['method'], case['gradient'], case['threads']))


def run_case(case, ctx):
    if case.get('kind') == 'overlap':
        return run_overlap(case, ctx)
    import numdifftools.nd_scipy as nds
    rng = np.random.default_rng(case['seed'])
    n, m, method = case['n'], case['m'], case['method']
    gradient = case['gradient']
    if gradient:
        m = 1
    A = rng.normal(size=(m, n)) * 10.0 ** rng.uniform(-1, 1)
    if case['family'] == 'affine' and case['seed'] % 5 == 2:
        # magnitude classes of the derivative itself: the whole map, or one column of it, in units of 1e-6..1e-13
        if case['seed'] % 2:
            A = A * 10.0 ** rng.uniform(-13, -6)
        else:
            A[:, int(rng.integers(0, n))] *= 10.0 ** rng.uniform(-13, -6)
        ctx.count('tiny_derivative_cases')
    B = rng.normal(size=(m, n)) * 0.3
    b = rng.normal(size=m)
    x = rng.uniform(-2, 2, size=n)
    x = np.where(np.abs(x) < 0.05, 0.5, x)
    int_dtype = None
    if case['bounds'] == 'none' and not gradient and case['seed'] % 7 == 3:
        # integer-valued points handed over in a (small) integer dtype
        int_dtype = ['int8', 'int16', 'uint8', 'int32', 'int64', 'uint16'][(case['seed'] // 7) % 6]
        x = np.rint(x * 2.0)
        x = np.where(x == 0, 1.0, x)
        if int_dtype.startswith('u'):
            x = np.abs(x) + 1.0
    if case['bounds'] in ('scalar_zero_lower', 'scalar_zero_upper'):
        x = np.abs(x) if case['bounds'] == 'scalar_zero_lower' else -np.abs(x)
        x[case['seed'] % n] = 0.0           # one coordinate exactly on the limit 0
    if int_dtype is None and case['family'] == 'affine' and method == 'complex' and case['bounds'] == 'none' and case['step'] is None and case['seed'] % 2 == 0:
        # magnitude classes (affine maps with the complex method and its default step: exact to rounding whatever the unit of x;
        # a user-given relative step times a tiny |x| is a subnormal step, which is the user's choice): some coordinates tiny, some huge, one exactly 0
        ctx.count('extreme_magnitude_x_cases')
        mag = 10.0 ** np.where(rng.random(n) < 0.5, rng.uniform(-307.6, -285, size=n), rng.uniform(20, 120, size=n))
        x = np.sign(x) * mag
        if n > 1 and rng.random() < 0.5:
            x[int(rng.integers(0, n))] = 0.0
    if int_dtype is None and case['family'] == 'affine' and method != 'complex' and case['bounds'] == 'none' and case['step'] is None and (case['seed'] % 3 != 0 or case.get('large_x')):
        # points far from the origin (1e2 .. 1e7): the default step is relative to |x|
        x = x * 10.0 ** rng.uniform(2, 7, size=n)
        ctx.count('large_magnitude_x_cases')
    scale_arg, shift_kw = float(rng.uniform(0.5, 2.0)), float(rng.normal())
    # how the extra arguments are given in the judged call: positional + keyword, positional only, keyword only, none (f has
    # defaults s=1, shift=0); in a third of the cases the object has served another call with other extra arguments before
    amode = ['both', 'both', 'args', 'kwds', 'none', 'none'][case['seed'] % 6]
    if amode in ('kwds', 'none'):
        scale_arg = 1.0
    if amode in ('args', 'none'):
        shift_kw = 0.0

    # the keyword of f: any name, also one that the wrapper's own constructor options carry (step, method, bounds, order)
    kwname = ['shift', 'shift', 'step', 'method', 'bounds', 'order', 'rel_step'][(case['seed'] // 6) % 7]
    if kwname != 'shift':
        ctx.count('keyword_of_f_named_like_an_option_of_the_wrapper')
    if case['family'] == 'affine':
        def f(z, s=1.0, **kw_):
            shift = kw_.get(kwname, 0.0)
            z = np.asarray(z).ravel()
            v = s * (A @ z) + b + shift
            return v[0] if gradient else v
        Jexact = scale_arg * A
    else:
        def f(z, s=1.0, **kw_):
            shift = kw_.get(kwname, 0.0)
            z = np.asarray(z).ravel()
            v = s * np.sin(A @ z) * np.exp(B @ z) + shift
            return v[0] if gradient else v
        sa, eb = np.sin(A @ x), np.exp(B @ x)
        Jexact = scale_arg * (np.cos(A @ x)[:, None] * A * eb[:, None] + sa[:, None] * eb[:, None] * B)
    rec = Recorder(f)
    kw = dict(method=method, step=case['step'])
    lb = ub = None
    if case['bounds'] in ('scalar_zero_lower', 'scalar_zero_upper', 'scalar'):
        # one scalar limit for every coordinate (scipy broadcasts it); the limit 0 written as 0, 0.0 or -0.0 is a limit like
        # any other, and some coordinates sit exactly on it
        ctx.count('bounds_active_cases')
        ctx.count('scalar_bounds_cases')
        if case['bounds'] == 'scalar':
            lo_s, hi_s = float(np.min(x) - rng.uniform(0.0, 0.3)), float(np.max(x) + rng.uniform(0.0, 0.3))
            kw['bounds'] = (lo_s, hi_s)
        else:
            zero = [0, 0.0, -0.0, np.float64(0.0)][case['seed'] % 4]
            kw['bounds'] = (zero, np.inf) if case['bounds'] == 'scalar_zero_lower' else (-np.inf, zero)
            lo_s, hi_s = (0.0, np.inf) if case['bounds'] == 'scalar_zero_lower' else (-np.inf, 0.0)
        lb, ub = np.full(n, lo_s), np.full(n, hi_s)
    elif case['bounds'] != 'none':
        width = 10.0 ** rng.uniform(-3, 0) if case['bounds'] == 'tight' else rng.uniform(0.5, 2.0)
        lb, ub = x - width * rng.uniform(0.1, 1, n), x + width * rng.uniform(0.1, 1, n)
        if case['bounds'] == 'on_lower':
            lb = x.copy()
        elif case['bounds'] == 'on_upper':
            ub = x.copy()
        elif case['bounds'] == 'near_face':
            # strictly inside, but within 1e-9 .. 1e-5 (relative) of a face in some coordinates: the point is the point given
            gap = 10.0 ** rng.uniform(-9, -5.1, n) * (1.0 + np.abs(x))
            side = rng.random(n) < 0.5
            lb = np.where(side, x - gap, lb)
            ub = np.where(~side, x + gap, ub)
            ctx.count('points_close_to_a_face_of_the_box')
        kw['bounds'] = (lb, ub)
        ctx.count('bounds_active_cases')
    if gradient and case['xshape'] == 'matrix' and n % 2 == 0:
        xin = x.reshape(2, n // 2)
        # the same logical matrix in another memory layout (the gradient is ordered like x.ravel(), logically)
        layout = str(rng.choice(['C', 'F', 'F', 'F', 'strided']))
        if layout == 'F':
            xin = np.asfortranarray(xin)
        elif layout == 'strided':
            big = np.zeros((2, n))
            big[:, ::2] = xin
            xin = big[:, ::2]
        if n >= 4 and layout != 'C':
            ctx.count('gradient_of_non_contiguous_matrix_x')
    elif gradient and case['xshape'] == 'scalar' and n == 1:
        xin = float(x[0])
    else:
        xin = x.copy()
        k = (case.get('seed', 0) // 5) % 8
        if k == 0:
            xin = x.tolist()
            ctx.count('x_given_as:list')
        elif k == 1:
            xin = tuple(x.tolist())
            ctx.count('x_given_as:tuple')
        if int_dtype is not None:
            xin = x.astype(int_dtype)
            ctx.count('x_given_as:' + int_dtype)
    args = (scale_arg,) if amode in ('both', 'args') else ()
    kwds = {kwname: shift_kw} if amode in ('both', 'kwds') else {}
    ctx.count('extra_arguments_given:' + amode)
    cls = nds.Gradient if gradient else nds.Jacobian
    try:
        with np.errstate(all='ignore'):
            obj = cls(rec, **kw)
            if (case['seed'] // 6) % 3 == 0:
                ctx.count('object_called_before_with_other_extra_arguments')
                try:
                    obj(np.array(x, copy=True), 3.0, **{kwname: -2.5})
                except Exception:
                    pass
                del rec.calls[:]
            elif (case['seed'] // 6) % 3 == 1:
                # ... or a call that failed: too many positional parameters for f (a TypeError from f's own signature), or a point
                # of the wrong type.  The object is then used correctly: same configuration, same result
                ctx.count('object_called_before_with_a_call_that_raised')
                try:
                    if case['seed'] % 2:
                        obj(np.array(x, copy=True), 3.0, 4.0, 5.0)
                    else:
                        obj(None)
                except Exception:
                    pass
                del rec.calls[:]
            x_then = np.array(xin, copy=True) if isinstance(xin, np.ndarray) else None
            J = obj(xin, *args, **kwds)
            if x_then is not None:
                ctx.count('callers_array_unchanged_asserted')
                if xin.tobytes() != x_then.tobytes():
                    ctx.reject('callers_array_modified', observed=xin, expected=x_then)
                    return
    except Exception as exc:
        ctx.reject('raised', observed=repr(exc)[:200], method=method, bounds=case['bounds'])
        return
    ctx.count('method:' + method)
    J = np.asarray(J)
    # ---- shapes
    if gradient:
        exp_shape = () if n == 1 else (n,)
        ctx.count('gradient_asserted')
    else:
        exp_shape = (m, n)
    if J.shape != exp_shape:
        ctx.reject('shape', observed=list(J.shape), expected=list(exp_shape), gradient=gradient, m=m, n=n)
        if not (not gradient and m == 1 and J.shape == (n,)):
            return
        # the single-output case is a recorded finding; keep checking values, bounds and forwarding
    Jm = J.reshape(m, n)
    # ---- values
    amax = float(np.max(np.abs(Jexact))) or 1.0
    if case['family'] == 'affine' and method == 'complex':
        tol = 64 * EPS * amax
    elif case['family'] == 'affine' and case['step'] is None and case['bounds'] == 'none' and int_dtype is None:
        # an affine map has no truncation error: what remains is the rounding of f at the displaced points over the step scipy
        # documents as its default, eps^(1/2) (2-point) or eps^(1/3) (3-point) times max(1, |x_j|) - a *relative* step
        h_def = (EPS ** 0.5 if method == 'forward' else EPS ** (1.0 / 3.0)) * float(np.min(np.maximum(1.0, np.abs(x))))
        fmag_ = float(np.max(np.abs(scale_arg * A) @ np.abs(x))) + float(np.max(np.abs(b))) + abs(shift_kw) + amax
        tol = 256 * EPS * fmag_ / h_def
        ctx.count('affine_default_step_asserted_at_rounding_level')
    elif case['family'] == 'affine':
        # (the size of f itself: |A x| + |b| + the shift parameter handed to f, which is part of every value that is differenced)
        tol = 1e-6 * amax * (1 + float(np.max(np.abs(x))) + (float(np.max(np.abs(b))) + abs(shift_kw)) / amax)
    else:
        tol = {'forward': 1e-4, 'central': 1e-6, 'complex': 1e-9}[method] * amax
    if case['step'] is None and case['family'] != 'affine':
        # scipy's default relative steps: eps**(1/2) (2-point, cs) and eps**(1/3) (3-point), times max(1, |x|)
        h = {'forward': EPS ** 0.5, 'central': EPS ** (1 / 3.0), 'complex': EPS ** 0.5}[method] * max(1.0, float(np.max(np.abs(x))))
        a2 = 1.0 + float(np.max(np.abs(A))) + float(np.max(np.abs(B)))
        M = scale_arg * float(np.max(np.exp(np.abs(B) @ np.abs(x))))
        tol = max(tol, 10 * (h * M * a2 ** 2 if method == 'forward' else h * h * M * a2 ** 3))
    if case['step'] is not None:
        # a user-chosen relative step trades truncation against rounding; each derivative of the smooth family grows
        # by at most a2 = 1 + max|A| + max|B|
        h = case['step'] * float(np.max(np.abs(x)))
        a2 = 1.0 + float(np.max(np.abs(A))) + float(np.max(np.abs(B)))
        fmag = float(np.max(np.abs(Jexact @ x))) + float(np.max(np.abs(b))) + amax
        smooth = case['family'] != 'affine'
        M = scale_arg * float(np.max(np.exp(np.abs(B) @ np.abs(x)))) if smooth else 0.0   # |f^(k)| <= M * a2^k
        trunc = 0.0 if not smooth else (h * M * a2 ** 2 if method == 'forward' else h * h * M * a2 ** 3)
        rnd = 0.0 if method == 'complex' else EPS * fmag / (case['step'] * max(float(np.min(np.abs(x))), 1e-300))
        tol = max(tol, 10 * (trunc + rnd))
    err = float(np.max(np.abs(Jm - Jexact)))
    if case['family'] == 'affine' and method == 'complex' and case['bounds'] == 'none':
        # the complex step carries each entry in an imaginary part of its own: exact to rounding entry by entry, not just
        # relative to the largest entry (the value b + A x takes no part in it)
        ctx.count('complex_affine_entries_asserted_relative_to_themselves', m * n)
        rel = np.abs(Jm - Jexact) - 64 * EPS * np.abs(Jexact)
        if np.any(rel > 0):
            ij = np.unravel_index(int(np.argmax(rel)), rel.shape)
            ctx.reject('jacobian_entries', observed=Jm, expected=Jexact, detail=dict(err=float(np.abs(Jm - Jexact)[ij]), entry=[int(v) for v in ij],
                                                                                      tol=float(64 * EPS * abs(Jexact[ij])), entrywise=True),
                       method=method, family=case['family'])
            return
    ctx.count('jacobian_entries_asserted', m * n)
    ctx.maximum('err/tol:%s:%s' % (case['family'], method), err / tol, dict(case=case))
    if not err <= tol:
        ctx.reject('jacobian_entries', observed=Jm, expected=Jexact, detail=dict(err=err, tol=tol),
                   method=method, family=case['family'])
        return
    # ---- forwarding and bounds on every recorded evaluation
    for c in rec.calls:
        if len(c.args) != len(args) or any(a is not b and a != b for a, b in zip(c.args, args)) or c.kwds != kwds:
            ctx.reject('extra_arguments_not_forwarded', observed=[repr(c.args), repr(c.kwds)],
                       expected=[repr(args), repr(kwds)])
            return
        z = np.real(np.asarray(c.z1)).ravel()
        if lb is not None:
            ctx.count('bounds_points_asserted')
            if np.any(z < lb) or np.any(z > ub):
                ctx.reject('evaluation_outside_bounds', observed=z, expected=[lb, ub], method=method,
                           bounds=case['bounds'])
                return
    ctx.count('forwarding_asserted')
    # ---- option forwarding seen at the boundary: stencil sides and the user's relative step
    if lb is None and rec.calls:
        offs = np.array([np.asarray(c.z1).ravel() - x for c in rec.calls])
        re_off, im_off = np.real(offs), np.imag(offs)
        if method == 'central':
            ctx.count('central_two_sided_asserted')
            if not (np.all(np.max(re_off, axis=0) > 0) and np.all(np.min(re_off, axis=0) < 0)):
                ctx.reject('central_did_not_evaluate_on_both_sides', observed=[np.min(re_off, axis=0), np.max(re_off, axis=0)],
                           method=method)
                return
        if method == 'complex':
            ctx.count('complex_imaginary_step_asserted')
            if np.any(re_off != 0) or not np.all(np.max(np.abs(im_off), axis=0) > 0):
                ctx.reject('complex_method_did_not_take_purely_imaginary_steps', observed=offs[:3], method=method)
                return
        if case['step'] is not None:
            mag = np.max(np.abs(offs), axis=0)
            want = case['step'] * np.abs(x)              # scipy: h = rel_step * sign(x) * |x|
            ctx.count('relative_step_asserted')
            live = want > 0          # (for a coordinate that is exactly 0 the relative step vanishes and scipy falls back to its default)
            if np.any(mag[live] < 0.5 * want[live]) or np.any(mag[live] > 2.0 * want[live]):
                ctx.reject('given_relative_step_not_used', observed=mag, expected=want, method=method)
                return
    sym = (m == n and np.allclose(Jexact, Jexact.T))
    if not sym and m * n > 1:
        ctx.nontrivial((n, m, method, case['family'], case['bounds'] != 'none', case['step'] is not None, gradient))
    if len(ctx.samples) < 3:
        ctx.sample(dict(case=case, J=Jm, exact=Jexact, evaluations=len(rec.calls)))


def classify(wit):
    f = wit.get('facts') or {}
    if wit.get('check') == 'shape' and f.get('gradient') is False and f.get('m') == 1 \
            and wit.get('observed') == [f.get('n')] and wit.get('expected') == [1, f.get('n')]:
        return 'nd-scipy-jacobian-single-output-is-1d'
    return None


TECHNIQUE = ('runtime monitoring: contract on nd_scipy.Jacobian/Gradient returns (analytic Jacobian oracle) + boundary '
             'recorder for bounds and argument forwarding')
LEVEL_TEXT = 'exploration: every observed call is decided by shape, analytic-Jacobian, bounds and forwarding conditions'
LEVEL_NOTE = 'scipy.optimize approx_derivative is the wrapped engine; tolerances reflect its default step sizes'
