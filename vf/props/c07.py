"""C07 - Richardson extrapolation removes exactly the modelled error terms."""
from fractions import Fraction
import math

import numpy as np

from vf.oracle.exact import F, QI, to_float, EPS

ID = 'C07'
NSHARDS = dict(quick=8, thorough=16)
BUDGET = dict(quick=8000, thorough=400000)
ANCHORS = ['numdifftools.extrapolation:Richardson._r_matrix', 'numdifftools.extrapolation:Richardson.rule',
           'numdifftools.extrapolation:Richardson.__call__', 'numdifftools.extrapolation:Richardson._estimate_error']
ALSO_WATCHED = ['numdifftools.extrapolation:convolve']          # (a helper: observed while it is what applies the rule)
MIN_COUNTERS = dict(quick={'moments_asserted': 3000, 'slots_asserted': 10000, 'column_independence_asserted': 1000,
                           'short_sequence_cases': 300, 'complex_ratio_cases': 800,
                           'object_reused_after_other_length': 2500},
                    thorough={'moments_asserted': 100000, 'slots_asserted': 500000})
RULE = ('Integral ratios also as int / numpy integer / 0-d integer array; in half of the cases the extrapolator object has served a sequence of another length before. ' 
        'step_ratio log-uniform in (1.05, 100], 30 % complex r*exp(i theta); spacing 1..4, order 1..8, '
        'num_terms 0..5, N 1..20, 1-d or 1..4 columns; L and a_j over 6 decades; sequences generated in exact '
        'Q / Q(i) arithmetic and rounded once. distinct non-trivial = (complex?, spacing, order, terms used >= 1, N) '
        'with a well-conditioned rule (eps*sum|w| <= 1e-3)')
ASSUMPTIONS = ['conditioning-scaled rounding: C*eps*sum|w| for the moment identities and C*eps*sum|w|*max|seq| per '
               'output slot, C = 4096 (30x the worst ratio observed on the unchanged tree)',
               'cells with eps*sum|w| > 1e-3 are ill-conditioned: only shape/totality is asserted there']
C_MOM = 4096.0
C_SLOT = 4096.0


def setup(ctx, mon):
    import numdifftools.extrapolation  # noqa
    seen = {}

    def on_conv(frame, retval):
        kw = frame.f_locals.get('kwds', {})
        ctx.count('convolve_origin=%s' % (kw.get('origin'),))
        if np.iscomplexobj(retval):
            ctx.count('convolve_complex_branch')
    for a in ANCHORS + ALSO_WATCHED:
        mon.watch(a, on_return=on_conv if a.endswith(':convolve') else None)


def cases(rng, tier, shard, nshards):
    for i in range(BUDGET[tier] // nshards):
        cplx = rng.random() < 0.3
        r = float(np.exp(rng.uniform(math.log(1.05), math.log(100.0)))) if rng.random() < 0.8 else \
            float(rng.choice([1.2, 1.6, 2.0, 4.0, 10.0, 100.0]))
        theta = float(rng.uniform(-math.pi, math.pi)) if cplx else 0.0
        if cplx and rng.random() < 0.15:
            # a ratio that is complex by a hair (rotation of 1e-12 .. 1e-3 rad): complex all the same
            theta = float(rng.choice([-1, 1]) * 10.0 ** rng.uniform(-12, -3))
        N = int(rng.integers(1, 21))
        terms = int(rng.integers(0, 6))
        ncols = int(rng.integers(0, 5))   # 0 -> 1-d sequence
        rtype = 'float'
        if rng.random() < 0.12 and not cplx:
            r = float(rng.choice([2, 3, 4, 5, 8, 10, 16]))         # an integral ratio given as an integer type
            rtype = str(rng.choice(['int', 'np_int64', 'np_int32', 'zero_d_int']))
        yield dict(r=r, theta=theta, spacing=int(rng.integers(1, 5)), order=int(rng.integers(1, 9)),
                   num_terms=terms, N=N, ncols=ncols, seed=int(rng.integers(0, 2 ** 31)), rtype=rtype)


def _ratio(case):
    if case['theta'] == 0.0:
        return case['r']
    return complex(case['r'] * math.cos(case['theta']), case['r'] * math.sin(case['theta']))


def run_case(case, ctx):
    from numdifftools.extrapolation import Richardson
    rng = np.random.default_rng(case['seed'])
    rho = _ratio(case)
    cplx = isinstance(rho, complex)
    spacing, order, T, N = case['spacing'], case['order'], case['num_terms'], case['N']
    used = min(T, N - 1)
    if cplx:
        ctx.count('complex_ratio_cases')
    if used < T:
        ctx.count('short_sequence_cases')
    rho_given = rho
    rt = case.get('rtype', 'float')
    if rt != 'float':
        ctx.count('integer_typed_step_ratio_cases')
        rho_given = {'int': int(rho), 'np_int64': np.int64(rho), 'np_int32': np.int32(rho), 'zero_d_int': np.array(int(rho))}[rt]
    try:
        if case['seed'] % 5 == 3:
            rich = Richardson(rho_given, spacing, order, T)       # the documented signature, positionally
            ctx.count('constructor_arguments_given_positionally')
        else:
            rich = Richardson(step_ratio=rho_given, step=spacing, order=order, num_terms=T)
        if case['seed'] % 2:
            # history: the same extrapolator has already served a sequence of another length (shorter than
            # num_terms + 1 in half of the cases); nothing of that may survive into the call that is judged
            wrng = np.random.default_rng(case['seed'] + 1)
            N0 = int(wrng.integers(1, max(T, 1) + 1)) if wrng.random() < 0.5 else int(wrng.integers(1, 21))
            if N0 == N:
                N0 = N + 1
            ctx.count('object_reused_after_other_length')
            try:
                rich.rule(N0)
                s0 = wrng.normal(size=N0) * (1 if not cplx else 1 + 0.5j)
                h0w = np.array([0.7 * abs(rho) ** -k for k in range(N0)], dtype=s0.dtype)
                rich(s0, h0w)
            except Exception as exc:
                ctx.reject('call_raised', observed=repr(exc), detail=dict(N=N0, used=min(T, N0 - 1), warm_up=True))
                return
        w = np.asarray(rich.rule(N))
    except Exception as exc:
        ctx.reject('rule_raised', observed=repr(exc))
        return
    if w.shape != (used + 1,):
        ctx.reject('rule_length', observed=list(w.shape), expected=[used + 1])
        return
    if not np.all(np.isfinite(w)):
        ctx.reject('rule_nonfinite', observed=w)
        return
    sumabs = float(np.sum(np.abs(w)))
    well = EPS * sumabs <= 1e-3
    qw = [QI.of(complex(v)) if np.iscomplexobj(w) else QI.of(float(v)) for v in w]
    qrho_inv = QI.of(rho).inv()
    # ---- (a) moment identities, exact on the float weights -----------------------------
    if well:
        tot = QI(0)
        for v in qw:
            tot = tot + v
        r0 = (tot - 1).abs_float() / (C_MOM * EPS * sumabs)
        ctx.maximum('sum_w-1 / bound(C=%g)' % C_MOM, r0)
        ctx.count('moments_asserted')
        if r0 > 1:
            ctx.reject('weights_do_not_sum_to_one', observed=tot.to_complex(), expected=1.0,
                       detail=dict(w=w, sumabs=sumabs))
            return
        for j in range(used):
            p = order + spacing * j
            acc, sc = QI(0), 0.0
            base = qrho_inv ** p
            cur = QI(1)
            for i, v in enumerate(qw):
                acc = acc + v * cur
                sc += abs(complex(w[i])) * cur.abs_float()
                cur = cur * base
            rj = acc.abs_float() / (C_MOM * EPS * sumabs)
            ctx.maximum('moment / bound(C=%g)' % C_MOM, rj, dict(case=case, j=j))
            ctx.count('moments_asserted')
            if rj > 1:
                ctx.reject('error_power_not_annihilated', observed=acc.to_complex(), expected=0.0,
                           detail=dict(power=p, j=j, w=w, bound=C_MOM * EPS * sumabs))
                return
    else:
        ctx.count('skipped_ill_conditioned_rule')
    # ---- (b) functional: L + sum a_j h^(order+spacing j) -> L in every slot ---------------
    ncols = max(case['ncols'], 1)
    nmodel = int(rng.integers(0, used + 1)) if rng.random() < 0.3 else used
    h0 = 10.0 ** rng.uniform(-1, 0.3)
    Ls, As = [], []
    seq = np.zeros((N, ncols), dtype=complex if cplx else float)
    steps = np.zeros((N, ncols), dtype=complex if cplx else float)
    hk = [QI.of(h0) * (qrho_inv ** k) for k in range(N)]
    hkp = [[hk[k] ** (order + spacing * j) for j in range(nmodel)] for k in range(N)]
    maxabs = np.zeros(ncols)
    units = np.ones(ncols)
    if ncols > 1 and case['seed'] % 4 == 1:
        # columns in wildly different units (1e-200 .. 1e+200 apart): each column is a sequence of its own
        units = 10.0 ** rng.choice([-200.0, -160.0, -100.0, 0.0, 100.0, 150.0, 200.0], size=ncols)
        ctx.count('columns_in_wildly_different_units')
    for c in range(ncols):
        L = float(rng.choice([-1, 1])) * 10.0 ** rng.uniform(-3, 3) * float(units[c])
        a = [float(rng.choice([-1, 1])) * 10.0 ** rng.uniform(-3, 3) * float(units[c]) for _ in range(nmodel)]
        Ls.append(L)
        As.append(a)
        for k in range(N):
            val = QI.of(L)
            for j, aj in enumerate(a):
                val = val + QI.of(aj) * hkp[k][j]
            z = val.to_complex()
            seq[k, c] = z if cplx else z.real
            steps[k, c] = hk[k].to_complex() if cplx else hk[k].to_complex().real
        # conditioning scale: the individual terms may cancel in the sequence value but not in the rounding of the
        # weighted sum, so the scale is the sum of their magnitudes at the largest step
        maxabs[c] = max(np.max(np.abs(seq[:, c])),
                        abs(L) + sum(abs(aj) * hkp[0][j].abs_float() for j, aj in enumerate(a)))
    if not np.all(np.isfinite(seq)):
        ctx.count('skipped_overflowing_sequence')
        return
    one_d = case['ncols'] == 0
    s_in = seq[:, 0].copy() if one_d else seq.copy()
    h_in = steps[:, 0].copy() if one_d else steps.copy()
    if not one_d and ncols > 1 and N > 1 and case['seed'] % 3 == 2:
        # the same logical arrays in column-major memory (np.asfortranarray, or a transposed view of the columns stacked as rows)
        if case['seed'] % 2:
            s_in, h_in = np.asfortranarray(s_in), np.asfortranarray(h_in)
        else:
            s_in, h_in = np.array([s_in[:, c_] for c_ in range(ncols)]).T, np.array([h_in[:, c_] for c_ in range(ncols)]).T
        ctx.count('sequences_in_column_major_memory')
    s_keep, h_keep = s_in.copy(), h_in.copy()
    try:
        out, abserr, hout = rich(s_in, h_in)
    except Exception as exc:
        ctx.reject('call_raised', observed=repr(exc), detail=dict(N=N, used=used))
        return
    if s_in.tobytes() != s_keep.tobytes() or h_in.tobytes() != h_keep.tobytes():
        ctx.reject('input_modified')
        return
    out, abserr, hout = np.asarray(out), np.asarray(abserr), np.asarray(hout)
    then = [out.copy(), abserr.copy(), hout.copy()]
    try:
        rich(s_keep * 1.5 + 0.25, h_keep.copy())          # a later call on other data of the same shape
    except Exception:
        pass
    if any(a.tobytes() != b.tobytes() for a, b in zip((out, abserr, hout), then)):
        ctx.reject('returned_arrays_changed_by_a_later_call')
        return
    m = N - used
    exp_shape = (m,) if one_d else (m, ncols)
    err_shapes = [exp_shape]
    if used == 0 and N >= 2:
        # with no extrapolation terms there is no spare row to difference: the library returns
        # one error estimate fewer than values.  The statement fixes the number of *outputs*;
        # the shorter estimate array is recorded, not judged (see DESIGN.md, C07).
        err_shapes.append((m - 1,) + exp_shape[1:])
    if out.shape != exp_shape or abserr.shape not in err_shapes or hout.shape != exp_shape:
        ctx.reject('output_length', observed=[list(out.shape), list(abserr.shape), list(hout.shape)],
                   expected=list(exp_shape), detail=dict(N=N, num_terms=T, used=used))
        return
    if abserr.shape != exp_shape:
        ctx.count('abserr_one_shorter_when_no_terms(noted)')
    if hout.tobytes() != h_keep[:m].tobytes():
        ctx.reject('steps_not_a_prefix')
        return
    abserr_raw = abserr
    if np.iscomplexobj(abserr):
        if N == 1:
            ctx.count('abserr_complex_for_single_term_complex_steps(noted)')
        elif np.any(abserr.imag != 0):
            ctx.reject('abserr_not_real', observed=abserr)
            return
        abserr = abserr.real if N > 1 else np.abs(abserr)
    if not (np.all(np.isfinite(abserr)) and np.all(abserr >= 0)):
        ctx.reject('abserr_negative_or_nonfinite', observed=abserr)
        return
    ctx.count('abserr_asserted')
    out2 = out.reshape(m, ncols)
    if well:
        worst, worst_at = 0.0, None
        for c in range(ncols):
            bound = C_SLOT * EPS * sumabs * max(maxabs[c], abs(Ls[c]))
            for k in range(m):
                err = abs(complex(out2[k, c]) - Ls[c])
                ratio = err / bound
                ctx.count('slots_asserted')
                if ratio > worst:
                    worst, worst_at = ratio, dict(slot=k, col=c, observed=complex(out2[k, c]), L=Ls[c],
                                                  err=err, bound=bound)
        ctx.maximum('slot_err / bound(C=%g)' % C_SLOT, worst, dict(case=case))
        if worst > 1:
            ctx.reject('limit_not_recovered', observed=worst_at['observed'], expected=worst_at['L'],
                       detail=dict(worst_at, w=w, used=used, modelled_terms=nmodel))
            return
    # ---- column independence, bit for bit -----------------------------------------------
    if not one_d and ncols > 1:
        for c in range(ncols):
            o1, e1, _ = rich(seq[:, c:c + 1].copy(), steps[:, c:c + 1].copy())
            if (np.asarray(o1).tobytes() != np.ascontiguousarray(out[:, c:c + 1]).tobytes() or
                    np.asarray(e1).tobytes() != np.ascontiguousarray(abserr_raw[:, c:c + 1]).tobytes()):
                ctx.reject('columns_not_independent', detail=dict(col=c))
                return
        ctx.count('column_independence_asserted')
        # ... also next to a column that overflowed (inf from the second row on): the other columns are what they were
        sick = np.concatenate([seq, np.full((N, 1), np.inf, dtype=seq.dtype)], axis=1)
        sick[0, -1] = 1.0
        try:
            with np.errstate(all='ignore'):
                o2, e2, _ = rich(sick, np.concatenate([steps, steps[:, :1]], axis=1))
            ctx.count('column_independence_next_to_an_overflowed_column_asserted')
            if np.ascontiguousarray(np.asarray(o2)[:, :ncols]).tobytes() != np.ascontiguousarray(out).tobytes():
                ctx.reject('columns_not_independent', detail=dict(next_to='a column holding inf'))
                return
        except Exception as exc:
            ctx.reject('call_raised', observed=repr(exc), detail=dict(N=N, used=used, column_of_inf=True))
            return
    if case['seed'] % 4 == 2:
        # whole-number sequences handed over in an integer type (int64 / int32 arrays, lists of Python ints): the same numbers as
        # floats give L in every slot, so these do too.  Integral ratio, integral steps rho^(N-1-k), integer L and amplitudes.
        irng = np.random.default_rng(case['seed'] + 5)
        rho_i, sp_i, od_i = int(irng.choice([2, 3, 4])), int(irng.integers(1, 3)), int(irng.integers(1, 3))
        T_i, N_i = int(irng.integers(1, 3)), int(irng.integers(3, 6))
        L_i = int(irng.integers(-50, 51)) * int(irng.choice([1, 1000]))
        amps = [int(irng.integers(1, 9)) * int(irng.choice([-1, 1])) for _ in range(T_i)]
        hs_i = [rho_i ** (N_i - 1 - k) for k in range(N_i)]
        vals = [L_i + sum(a_ * h_ ** (od_i + sp_i * j) for j, a_ in enumerate(amps)) for h_ in hs_i]
        form = ['int64', 'int32'][case['seed'] // 4 % 2]       # (ndarrays: the sequence is documented as an array)
        if form != 'int32' or max(abs(v) for v in vals) < 2 ** 31:
            seq_i = np.array(vals, dtype=form) if form != 'list' else list(vals)
            try:
                ri = Richardson(step_ratio=float(rho_i), step=sp_i, order=od_i, num_terms=T_i)
                out_i, _e, _h = ri(seq_i, np.array(hs_i, dtype=float))
                ctx.count('integer_typed_sequences_asserted')
                out_i = np.asarray(out_i, dtype=float)
                tol_i = 1e-9 * (abs(L_i) + max(abs(v) for v in vals))
                if out_i.shape != (N_i - T_i,) or not np.all(np.abs(out_i - L_i) <= tol_i):
                    ctx.reject('limit_not_recovered', observed=out_i, expected=L_i,
                               detail=dict(sequence=vals, given_as=form, ratio=rho_i, order=od_i, spacing=sp_i, num_terms=T_i))
                    return
            except Exception as exc:
                ctx.reject('call_raised', observed=repr(exc), detail=dict(integer_typed_sequence=True, given_as=form))
                return
    if case['seed'] % 4 == 3:
        # complex-valued sequences with a *real* ratio, 1-d and as a single column: the modelled terms are removed from real and
        # imaginary part alike, and the two layouts give the same numbers
        crng = np.random.default_rng(case['seed'] + 9)
        rho_c, sp_c, od_c = float(crng.choice([1.6, 2.0, 3.0, 4.0])), int(crng.integers(1, 3)), int(crng.integers(1, 4))
        T_c, N_c = int(crng.integers(1, 4)), int(crng.integers(4, 10))
        L_c = complex(crng.normal(), crng.normal()) * 10.0 ** crng.uniform(-2, 2)
        amps_c = [complex(crng.normal(), crng.normal()) for _ in range(T_c)]
        hs_c = np.array([0.8 * rho_c ** (-k) for k in range(N_c)])
        vals_c = np.array([L_c + sum(a_ * h_ ** (od_c + sp_c * j) for j, a_ in enumerate(amps_c)) for h_ in hs_c])
        try:
            rc = Richardson(step_ratio=rho_c, step=sp_c, order=od_c, num_terms=T_c)
            o1, e1, _ = rc(vals_c.copy(), hs_c.copy())
            o2, e2, _ = rc(vals_c.reshape(-1, 1).copy(), hs_c.reshape(-1, 1).copy())
            ctx.count('complex_sequences_with_real_ratio_asserted')
            o1, o2 = np.asarray(o1), np.asarray(o2)
            wc = np.asarray(rc.rule(N_c))
            tol_c = 1e3 * EPS * float(np.sum(np.abs(wc))) * (abs(L_c) + sum(abs(a_) for a_ in amps_c))
            if o1.shape != (N_c - min(T_c, N_c - 1),) or not np.all(np.abs(o1 - L_c) <= tol_c):
                ctx.reject('limit_not_recovered', observed=o1[:3], expected=L_c,
                           detail=dict(complex_sequence_real_ratio=True, layout='1-d', ratio=rho_c, order=od_c, spacing=sp_c, num_terms=T_c, tol=tol_c))
                return
            if o1.tobytes() != np.ascontiguousarray(o2[:, 0]).tobytes():
                ctx.reject('columns_not_independent', observed=o1[:3], expected=o2[:3, 0], detail=dict(complex_sequence='1-d against one column'))
                return
        except Exception as exc:
            ctx.reject('call_raised', observed=repr(exc), detail=dict(complex_sequence_real_ratio=True))
            return
    if well and used >= 1 and nmodel >= 1:
        ctx.nontrivial((cplx, spacing, order, used, N))
    if len(ctx.samples) < 2:
        ctx.sample(dict(case=case, rule=w, L=Ls, first_column=seq[:, 0], out_first_column=out2[:, 0]))


def classify(wit):
    return None


TECHNIQUE = ('runtime monitoring: contracts on Richardson.rule/__call__ returns, observer on convolve; '
             'exact Q / Q(i) annihilation oracle')
LEVEL_TEXT = ('exploration: every returned rule is checked against the exact annihilation identities in Gaussian-'
              'rational arithmetic and every output slot of synthetic sequences against the known limit')
LEVEL_NOTE = 'trusts CPython Fraction arithmetic; rounding constants calibrated on the unchanged tree'
