"""C12 - Bicomplex numbers implement the holomorphic extension of every function.

Oracle: idempotent decomposition evaluated with mpmath at 40 digits,
    F(z1 + j z2) = e1 f(z1 - i z2) + e2 f(z1 + i z2)
 => Z1 = (f(a) + f(b))/2,  Z2 = i (f(a) - f(b))/2,   a = z1 - i z2, b = z1 + i z2.
"""
import math

import numpy as np

from vf import expr as X

ID = 'C12'
NSHARDS = dict(quick=8, thorough=16)
BUDGET = dict(quick=16000, thorough=800000)
ANCHORS = ['numdifftools.multicomplex:Bicomplex.%s' % n for n in (
    'sin cos tan cot sec csc sinh cosh tanh coth sech csch exp exp2 expm1 log log2 log10 log1p sqrt arcsin arccos '
    'arctan arccosh arcsinh arctanh __add__ __sub__ __rsub__ __mul__ __div__ __rdiv__ __pow__ __rpow__ __neg__ '
    'mod_c _arg_c arg_c').split()]
MIN_COUNTERS = dict(quick={'asserted:multicomplex_components': 600, 'asserted:unary': 6000, 'asserted:binary': 1500, 'asserted:pow': 1500,
                           'asserted:compose': 1000, 'asserted:reduction_z2_is_zero': 500,
                           'asserted:multicomplex_pattern': 500, 'via_ufunc': 2000, 'array_arguments': 1000},
                    thorough={'asserted:unary': 300000})
RULE = ('Base points of log / sqrt / powers also tiny (1e-30..1e-14, perturbations relative to x); quotient functions up to |x| = 1000. ' 
        'all 26 elementary methods (called directly and through numpy ufunc dispatch), the ring operators with '
        'bicomplex and real operands, integer/real/bicomplex powers and rpow, and random compositions of depth <= 3; '
        'arguments x + i h1 + j h2 + ij h12 with x in the real domain of f and |h| = |x| 10^U(-8,-1) (each component '
        'independently, sometimes 0), scalar and array. distinct non-trivial = (function/operator, decade of the '
        'largest perturbation, which non-real components are non-zero) with all three non-real components non-zero')
ASSUMPTIONS = ['componentwise |observed - model| <= C*eps*(|Z1|+|Z2| + cond), cond = |f\'(a) a| + |f\'(b) b| measured by '
               'perturbing the idempotent arguments; C = 256 (calibrated, see evidence worst ratios)',
               'mpmath 40-digit evaluation of the complex functions is the trusted reference',
               'log1p and the inverse trigonometric/hyperbolic functions are log(1 + ...) formulas: an absolute eps from '
               'forming 1 + ... is accepted (numpy\'s own complex log1p has relative error 8e-8 at 1e-9), so '
               'small-argument relative accuracy is not part of C12',
               'neighbourhood of the real domain: idempotent components stay within half the distance to the nearest '
               'singular point of every dividing / log / root / pole node (and within +-1 of the argument of '
               'exponentially growing nodes); arguments outside are counted as skipped, not judged',
               'base points: function-specific real domains away from branch points and poles (margins in DOMAIN table)']
C = 256.0
EPS = 2.0 ** -52
MC_TOL = 1e-6       # relative tolerance of the component-wise (imag1, imag12) clause: far above rounding, far below a lost component

FUNCS = ('sin cos tan cot sec csc sinh cosh tanh coth sech csch exp exp2 expm1 log log2 log10 log1p sqrt arcsin '
         'arccos arctan arccosh arcsinh arctanh').split()
NP_UFUNC = set('sin cos tan sinh cosh tanh exp exp2 expm1 log log2 log10 log1p sqrt arcsin arccos arctan arccosh '
               'arcsinh arctanh'.split())
COMPOSE_UNARY = ['exp', 'log', 'sqrt', 'sin', 'cos', 'tan', 'sinh', 'cosh', 'tanh', 'arctan', 'arcsin', 'arcsinh',
                 'arctanh', 'expm1', 'log1p']
BINOPS = ['add', 'sub', 'mul', 'div', 'radd', 'rsub', 'rmul', 'rdiv']
LOG_FORMULA = ('log1p', 'arcsin', 'arccos', 'arctan', 'arcsinh', 'arctanh', 'arccosh')
_mp = None


def mp():
    global _mp
    if _mp is None:
        import mpmath
        _mp = mpmath.mp.clone() if hasattr(mpmath.mp, 'clone') else mpmath.mp
        _mp.dps = 40
    return _mp


# analytic at the origin: a real part that is exactly 0.0 or -0.0 is a point like any other
ZERO_OK = {'exp', 'exp2', 'expm1', 'log1p', 'sin', 'cos', 'tan', 'sec', 'sinh', 'cosh', 'tanh', 'sech', 'arcsin', 'arccos', 'arctan',
           'arcsinh', 'arctanh'}


def draw_x(rng, fname):
    """A real base point in the domain of fname, away from its singular points."""
    u = rng.random()
    if fname in ZERO_OK and rng.random() < 0.04:
        return 0.0 if rng.random() < 0.6 else -0.0          # real part exactly zero (either sign of zero)
    if fname in ('log', 'log2', 'log10', 'sqrt', 'powr'):
        if u < 0.12:
            return float(10.0 ** rng.uniform(-30, -14))       # tiny but perfectly regular arguments (absolute thresholds!)
        return float(10.0 ** rng.uniform(-1, 1.3))
    if fname == 'log1p':
        return float(rng.uniform(-0.9, 5.0)) if u < 0.7 else float(rng.choice([-1, 1]) * 10.0 ** rng.uniform(-6, -1))
    if fname == 'expm1':
        return float(rng.uniform(-4, 4)) if u < 0.7 else float(rng.choice([-1, 1]) * 10.0 ** rng.uniform(-6, -1))
    if fname in ('arcsin', 'arccos', 'arctanh'):
        return float(rng.uniform(-0.9, 0.9))
    if fname == 'arccosh':
        return float(rng.uniform(1.1, 10.0))
    if fname in ('tan', 'sec'):
        while True:
            x = float(rng.uniform(-6, 6))
            if abs(math.cos(x)) > 0.15:
                return x
    if fname in ('cot', 'csc'):
        while True:
            x = float(rng.uniform(-6, 6))
            if abs(math.sin(x)) > 0.15:
                return x
    if fname in ('tanh', 'coth', 'sech', 'csch') and u < 0.04:
        return float(rng.choice([-1, 1]) * rng.uniform(360, 1000))    # real function finite (+-1 or 0) there
    if fname in ('coth', 'csch'):
        return float(rng.choice([-1, 1]) * rng.uniform(0.2, 5))
    if fname in ('exp', 'exp2', 'sinh', 'cosh', 'tanh', 'sech'):
        return float(rng.uniform(-6, 6))
    return float(rng.uniform(-6, 6)) if u < 0.8 else float(rng.choice([-1, 1]) * 10.0 ** rng.uniform(-3, 1.5))


def draw_h(rng, x, force_all=False):
    s = max(abs(x), 1e-3) if (abs(x) >= 1e-12 or x == 0.0) else abs(x)     # (tiny base points of log / sqrt / powers: perturbations relative to x)
    h = []
    for _ in range(3):
        if not force_all and rng.random() < 0.15:
            h.append(0.0)
        else:
            h.append(float(rng.choice([-1, 1]) * s * 10.0 ** rng.uniform(-8, -1)))
    return h


def cases(rng, tier, shard, nshards):
    n = BUDGET[tier] // nshards
    for i in range(n):
        u = rng.random()
        if u < 0.55:
            f = FUNCS[(i + shard) % len(FUNCS)]
            size = 0 if rng.random() < 0.7 else int(rng.integers(1, 5))
            xs = [draw_x(rng, f) for _ in range(max(size, 1))]
            hs = [draw_h(rng, x, force_all=rng.random() < 0.6) for x in xs]
            pattern = None
            r = rng.random()
            if r < 0.12:      # reduction: z2 = 0
                hs = [[h[0], 0.0, 0.0] for h in hs]
                pattern = 'z2=0'
            elif r < 0.3:     # the multicomplex pattern x + i h + j h
                hs = [[abs(h[0]), abs(h[0]), 0.0] for h in hs]
                pattern = 'multicomplex'
            if size >= 2 and (f in ZERO_OK or f == 'sqrt') and rng.random() < 0.25:
                # an array that holds the number zero itself (all four components 0): f(0) is a number like any other
                k0 = int(rng.integers(0, size))
                xs[k0], hs[k0] = 0.0, [0.0, 0.0, 0.0]
            yield dict(kind='unary', f=f, x=xs, h=hs, size=size, pattern=pattern,
                       via='ufunc' if (f in NP_UFUNC and rng.random() < 0.5) else 'method')
        elif u < 0.6:
            # the consequence clause: imag1 and imag12 of f(x + i h + j h), component by component, for the step sizes the
            # multicomplex method actually takes (tiny) and larger ones; unary functions, powers and quotients
            f = (list(FUNCS) + ['pow2.5', 'pow3', 'pow-2', 'recip', 'x_over_1px2', 'pow3_np', 'pow-2_np', 'pow5_np'])[(i + shard) % (len(FUNCS) + 8)]
            x = draw_x(rng, f if f in FUNCS else 'powr')
            if f in ('pow3', 'pow-2', 'recip', 'x_over_1px2', 'pow3_np', 'pow-2_np', 'pow5_np') and rng.random() < 0.5:
                x = -x                   # (integer powers and quotients: negative bases are in the domain)
            if f in ('tanh', 'coth', 'sech', 'csch') and abs(x) > 300:
                x = float(np.sign(x) * rng.uniform(0.2, 5))
            yield dict(kind='mc_components', f=f, x=x, hrel=float(10.0 ** rng.uniform(-15, -5)), as_array=bool(rng.random() < 0.3))
        elif u < 0.7:
            op = BINOPS[i % len(BINOPS)]
            x1, x2 = float(rng.uniform(-5, 5)), float(rng.choice([-1, 1]) * rng.uniform(0.2, 5))
            yield dict(kind='binary', op=op, x=[x1, x2], h=[draw_h(rng, x1), draw_h(rng, x2)],
                       scalar_other=bool(op.startswith('r') or rng.random() < 0.3))
        elif u < 0.85:
            pk = ['int', 'real', 'bicomplex', 'rpow', 'real_intvalued'][i % 5]
            if pk == 'int':
                x = float(rng.choice([-1, 1]) * rng.uniform(0.3, 4))
                e = int(rng.choice([-3, -2, -1, 2, 3, 4, 5]))
            elif pk == 'real':
                x, e = float(rng.uniform(0.2, 6)), float(rng.choice([0.5, 1.5, -0.5, 2.5, 0.3333, 2.0, 3.0, rng.uniform(-3, 3)]))
                if rng.random() < 0.15:
                    x = float(10.0 ** rng.uniform(-30, -14))
                elif rng.random() < 0.2 and e > 0:
                    hz = float(x * 10.0 ** rng.uniform(-8, -3))
                    yield dict(kind='pow', pk=pk, x=x, e=e, h=[hz, hz, 0.0], he=[0.0, 0.0, 0.0], with_zero=True)
                    continue
            elif pk == 'real_intvalued':
                # a float exponent with an integer value goes through exp(e log z) like any real power, but z**e is single-valued:
                # negative bases are in the domain (also with z2 = 0, where log needs the +-pi of the principal branch)
                x = float(rng.choice([-1, 1]) * rng.uniform(0.3, 4))
                e = float(rng.choice([3.0, -1.0, 2.0, 5.0, -2.0, -3.0]))
                hh = draw_h(rng, x)
                if rng.random() < 0.4:
                    hh = [hh[0], 0.0, 0.0]
                yield dict(kind='pow', pk=pk, x=x, e=e, h=hh, he=[0.0, 0.0, 0.0], np_float=bool(rng.random() < 0.5))
                continue
            elif pk == 'bicomplex':
                x, e = float(rng.uniform(0.3, 4)), float(rng.uniform(-2, 2))
            else:
                x, e = float(rng.uniform(-2, 2)), float(rng.uniform(0.3, 5))     # e ** z, e > 0 real
            yield dict(kind='pow', pk=pk, x=x, e=e, h=draw_h(rng, x), he=draw_h(rng, e if pk == 'bicomplex' else 1.0))
        else:
            tree = X.rand_tree(rng, int(rng.integers(2, 4)), unary=COMPOSE_UNARY, allow_powr=True)
            x = float(rng.uniform(-3, 3)) if rng.random() < 0.5 else float(rng.uniform(0.2, 4))
            yield dict(kind='compose', tree=tree, x=x, h=draw_h(rng, x, force_all=True))


# ------------------------------------------------------------------------------ model
def idem(x, h):
    m = mp()
    a = m.mpc(m.mpf(x) + m.mpf(h[2]), m.mpf(h[0]) - m.mpf(h[1]))
    b = m.mpc(m.mpf(x) - m.mpf(h[2]), m.mpf(h[0]) + m.mpf(h[1]))
    return a, b


def from_idem(fa, fb):
    m = mp()
    return (fa + fb) / 2, m.mpc(0, 1) * (fa - fb) / 2


def mp_fun(name):
    m = mp()

    def f(z):
        return X.eval_mp(('fn', name, ('x',)), z, m)
    return f


def bic(x, h):
    from numdifftools.multicomplex import Bicomplex
    x, h = np.asarray(x, dtype=float), np.asarray(h, dtype=float)
    if x.ndim == 0:
        return Bicomplex(complex(x, h[0]), complex(h[1], h[2]))
    return Bicomplex(x + 1j * h[:, 0], h[:, 1] + 1j * h[:, 2])


def wrap(res):
    from numdifftools.multicomplex import Bicomplex
    if isinstance(res, Bicomplex):
        return res
    return Bicomplex.__array_wrap__(np.asarray(res))


QUOTIENT_FUNCS = ('tanh', 'coth', 'sech', 'csch')


def quotient_overflow(tree, x):
    """True if the program applies tanh/coth/sech/csch to an argument beyond +-700, where the sinh and cosh the library
    forms the quotient of overflow themselves (below that the scaled reciprocal keeps the quotient finite)."""
    for node in X.nodes(tree):
        if node[0] == 'fn' and node[1] in QUOTIENT_FUNCS:
            try:
                v = X._eval_c(node[2], complex(x))
                if abs(v.real) > 700:
                    return True
            except Exception:
                pass
    return False


def compare(ctx, case, label, obs_z1, obs_z2, Z1, Z2, cond, key=None):
    """obs_*: python complex; Z*: mpc; cond: float."""
    m = mp()
    norm = float(abs(Z1) + abs(Z2))
    bound = C * EPS * (norm + cond)
    e1 = float(abs(m.mpc(obs_z1) - Z1)) if np.isfinite(obs_z1) else math.inf
    e2 = float(abs(m.mpc(obs_z2) - Z2)) if np.isfinite(obs_z2) else math.inf
    err = max(e1, e2)
    ratio = err / bound if bound > 0 else (0.0 if err == 0 else math.inf)
    ctx.maximum('err/bound(C=%g):%s' % (C, label), ratio, dict(case=case))
    if not ratio <= 1:
        ctx.reject('differs_from_holomorphic_extension', observed=[obs_z1, obs_z2],
                   expected=[complex(Z1), complex(Z2)],
                   detail=dict(err_z1=e1, err_z2=e2, bound=bound, norm=norm, cond=cond, label=label),
                   function=label, base_point=case.get('x'),
                   result_is_nan=bool(np.isnan(obs_z1) or np.isnan(obs_z2)),
                   quotient_overflow=bool(case.get('_qo')))
        return False
    return True


def numcond(f, args):
    """sum over arguments of |f(..., a(1+d), ...) - f| / d (40-digit arithmetic, d = 1e-18)."""
    m = mp()
    d = m.mpf('1e-18')
    f0 = f(*args)
    tot = m.mpf(0)
    for i in range(len(args)):
        pa = list(args)
        pa[i] = pa[i] * (1 + d)
        tot += abs(f(*pa) - f0) / d
    return float(tot)


def setup(ctx, mon):
    import numdifftools.multicomplex  # noqa
    for a in ANCHORS:
        mon.watch(a, lines=False)


def _nontrivial_key(label, h):
    nz = tuple(bool(v) for v in h)
    dec = int(math.floor(math.log10(max(abs(v) for v in h if v) if any(h) else 1e-9)))
    return (label, dec, nz)


def run_case(case, ctx):
    from numdifftools.multicomplex import Bicomplex
    m = mp()
    kind = case['kind']
    if kind == 'unary':
        f = case['f']
        xs, hs, size = case['x'], case['h'], case['size']
        z = bic(xs[0], hs[0]) if size == 0 else bic(xs, hs)
        z_then = (np.array(z.z1, copy=True), np.array(z.z2, copy=True))
        try:
            with np.errstate(all='ignore'):
                res = wrap(getattr(np, f)(z) if case['via'] == 'ufunc' else getattr(z, f)())
        except Exception as exc:
            ctx.reject('raised', observed=repr(exc), function=f, base_point=xs)
            return
        # a function of a number does not change the number (the same Bicomplex is used again in f(z) * z, f(z) + z, ...)
        ctx.count('argument_unchanged_asserted')
        if np.asarray(z.z1).tobytes() != z_then[0].tobytes() or np.asarray(z.z2).tobytes() != z_then[1].tobytes():
            ctx.reject('argument_modified_by_the_operation', observed=[np.ravel(z.z1)[:3], np.ravel(z.z2)[:3]],
                       expected=[np.ravel(z_then[0])[:3], np.ravel(z_then[1])[:3]], function=f, via=case['via'])
            return
        if case['via'] == 'ufunc':
            ctx.count('via_ufunc')
        if size:
            ctx.count('array_arguments')
        if size >= 2 and case['via'] != 'ufunc':
            # history: the same Bicomplex object evaluated, changed by item assignment (entries swapped), evaluated again: the
            # second value is that of a fresh number holding the same entries
            zz = bic(xs, hs)
            try:
                with np.errstate(all='ignore'):
                    getattr(zz, f)()
                    first = zz[0]
                    first = Bicomplex(np.array(first.z1, copy=True), np.array(first.z2, copy=True))
                    zz[0] = zz[size - 1]
                    zz[size - 1] = first
                    again = wrap(getattr(zz, f)())
                    fresh = wrap(getattr(Bicomplex(np.array(zz.z1, copy=True), np.array(zz.z2, copy=True)), f)())
                ctx.count('evaluated_again_after_item_assignment')
                if np.asarray(again.z1).tobytes() != np.asarray(fresh.z1).tobytes() or np.asarray(again.z2).tobytes() != np.asarray(fresh.z2).tobytes():
                    ctx.reject('value_depends_on_what_the_object_held_before', observed=[np.ravel(again.z1)[:2], np.ravel(again.z2)[:2]],
                               expected=[np.ravel(fresh.z1)[:2], np.ravel(fresh.z2)[:2]], function=f)
                    return
            except Exception as exc:
                ctx.count('item_assignment_history_raised:%s' % type(exc).__name__)
        if np.shape(res.z1) != np.shape(z.z1):
            ctx.reject('shape', observed=list(np.shape(res.z1)), expected=list(np.shape(z.z1)), function=f)
            return
        g = mp_fun(f)
        r1, r2 = np.atleast_1d(res.z1), np.atleast_1d(res.z2)
        for k, (x, h) in enumerate(zip(xs, hs)):
            if x == 0.0 and not any(h):
                # the unperturbed origin: the value is f(0), exactly representable for every function drawn here
                want0 = complex(g(m.mpf(0)))
                ctx.count('asserted:exact_zero_argument')
                if not (abs(complex(r1[k]) - want0) <= 4 * EPS * max(1.0, abs(want0)) and abs(complex(r2[k])) <= 4 * EPS):
                    ctx.reject('differs_from_holomorphic_extension', observed=[complex(r1[k]), complex(r2[k])], expected=[want0, 0.0],
                               function=f, base_point=[0.0], detail=dict(argument='the number zero (all components 0)'))
                    return
                continue
            a, b = idem(x, h)
            case['_qo'] = quotient_overflow(('fn', f, ('x',)), x)
            if not X.neighbourhood_ok(('fn', f, ('x',)), x, complex(a), complex(b)):
                ctx.count('skipped_outside_neighbourhood_of_real_domain')
                continue
            Z1, Z2 = from_idem(g(a), g(b))
            cond = numcond(g, [a]) + numcond(g, [b])
            if f in LOG_FORMULA:
                cond += 1.0     # judged as log(1 + ...): the rounding of forming 1 + ... (absolute eps) is accepted
            ok = compare(ctx, case, f, complex(r1[k]), complex(r2[k]), Z1, Z2, cond)
            ctx.count('asserted:unary')
            if not ok:
                return
            if case['pattern'] == 'z2=0':
                ctx.count('asserted:reduction_z2_is_zero')
            elif case['pattern'] == 'multicomplex':
                ctx.count('asserted:multicomplex_pattern')
            if all(h):
                ctx.nontrivial(_nontrivial_key(f, h))
        if len(ctx.samples) < 3:
            ctx.sample(dict(case=case, observed=[complex(r1[0]), complex(r2[0])]))
    elif kind == 'binary':
        op, (x1, x2), (h1, h2) = case['op'], case['x'], case['h']
        u = bic(x1, h1)
        if case['scalar_other']:
            v, a2, b2 = x2, m.mpc(x2), m.mpc(x2)
        else:
            v = bic(x2, h2)
            a2, b2 = idem(x2, h2)
        a1, b1 = idem(x1, h1)
        div_arg = (x1, a1, b1) if op == 'rdiv' else (x2, a2, b2)
        if op in ('div', 'rdiv') and max(abs(complex(div_arg[1]) - div_arg[0]),
                                         abs(complex(div_arg[2]) - div_arg[0])) > 0.5 * abs(div_arg[0]):
            ctx.count('skipped_outside_neighbourhood_of_real_domain')
            return
        try:
            with np.errstate(all='ignore'):
                res = dict(add=lambda: u + v, sub=lambda: u - v, mul=lambda: u * v, div=lambda: u / v,
                           radd=lambda: x2 + u, rsub=lambda: x2 - u, rmul=lambda: x2 * u, rdiv=lambda: x2 / u)[op]()
        except Exception as exc:
            ctx.reject('raised', observed=repr(exc), function=op)
            return
        ctx.count('argument_unchanged_asserted')
        for operand, (xo, ho) in ((u, (x1, h1)),) + (((v, (x2, h2)),) if not case['scalar_other'] else ()):
            fresh = bic(xo, ho)
            if np.asarray(operand.z1).tobytes() != np.asarray(fresh.z1).tobytes() or np.asarray(operand.z2).tobytes() != np.asarray(fresh.z2).tobytes():
                ctx.reject('argument_modified_by_the_operation', observed=[complex(np.ravel(operand.z1)[0]), complex(np.ravel(operand.z2)[0])],
                           expected=[complex(np.ravel(fresh.z1)[0]), complex(np.ravel(fresh.z2)[0])], function=op)
                return
        if op.startswith('r'):
            a1, b1, a2, b2 = m.mpc(x2), m.mpc(x2), a1, b1     # scalar is the left operand
        base = op[1:] if op.startswith('r') else op
        fn = dict(add=lambda p, q: p + q, sub=lambda p, q: p - q, mul=lambda p, q: p * q, div=lambda p, q: p / q)[base]
        Z1, Z2 = from_idem(fn(a1, a2), fn(b1, b2))
        cond = numcond(fn, [a1, a2]) + numcond(fn, [b1, b2])
        if base == 'div':   # division goes through log/exp: relative error grows with |log|
            cond *= 1 + float(abs(m.log(a2))) + float(abs(m.log(b2)))
        if case['scalar_other'] and op == 'div':
            # the same kind of quotient with an integer-typed divisor (numpy integer, 0-d or 1-element integer array, a list): either
            # refused, or the quotient by that number - never anything else
            dnum = [2, 4, -3, 8, 5][int(abs(x2) * 1000) % 5]
            dform = [np.int64(dnum), np.array(dnum), np.array([dnum]), np.int32(dnum), [dnum], np.array([dnum], dtype=np.int16)][int(abs(x1) * 1000) % 6]
            try:
                with np.errstate(all='ignore'):
                    qi = u / dform
            except Exception:
                ctx.count('integer_typed_divisor_refused')
                qi = None
            if qi is not None:
                with np.errstate(all='ignore'):
                    qf = u / float(dnum)
                ctx.count('integer_typed_divisor_quotient_asserted')
                o_ = [complex(np.ravel(qi.z1)[0]), complex(np.ravel(qi.z2)[0])]
                e_ = [complex(np.ravel(qf.z1)[0]), complex(np.ravel(qf.z2)[0])]
                if any(abs(p_ - q_) > 8 * EPS * abs(q_) for p_, q_ in zip(o_, e_)):
                    ctx.reject('differs_from_holomorphic_extension', observed=o_, expected=e_, function='div',
                               detail=dict(divisor=repr(dform), integer_typed_divisor=True))
                    return
        ctx.count('asserted:binary')
        if compare(ctx, case, op, complex(res.z1), complex(res.z2), Z1, Z2, cond) and all(h1):
            ctx.nontrivial(_nontrivial_key(op, h1))
    elif kind == 'mc_components':
        f, x, hrel = case['f'], case['x'], case['hrel']
        h = hrel * (max(abs(x), 1e-3) if (abs(x) >= 1e-12 or x == 0.0) else abs(x))
        special = {'pow2.5': (lambda z: z ** 2.5, lambda t: m.power(t, m.mpf(2.5))), 'pow3': (lambda z: z ** 3, lambda t: t ** 3),
                   'pow-2': (lambda z: z ** -2, lambda t: t ** -2), 'recip': (lambda z: 1.0 / z, lambda t: 1 / t),
                   # (integer exponents handed over as numpy integers)
                   'pow3_np': (lambda z: z ** np.int64(3), lambda t: t ** 3), 'pow-2_np': (lambda z: z ** np.int32(-2), lambda t: t ** -2),
                   'pow5_np': (lambda z: z ** np.arange(5, 6)[0], lambda t: t ** 5),
                   'x_over_1px2': (lambda z: z / (1.0 + z * z), lambda t: t / (1 + t * t))}
        if f in special:
            lib, g = special[f]
        else:
            lib, g = (lambda z: getattr(z, f)()), mp_fun(f)
        try:
            with np.errstate(all='ignore'):
                if case.get('as_array'):
                    # (for functions defined at 0 the neighbour is the non-invertible element 0 + i h + j h)
                    x_other = 0.0 if f in ('pow2.5', 'sqrt', 'pow3') else x
                    res = lib(bic(np.array([x_other, x]), np.array([[h, h, 0.0]] * 2)))
                    z1, z2 = complex(np.asarray(res.z1)[1]), complex(np.asarray(res.z2)[1])
                else:
                    res = lib(bic(x, [h, h, 0.0]))
                    z1, z2 = complex(res.z1), complex(res.z2)
        except Exception as exc:
            ctx.reject('raised', observed=repr(exc), function=f, base_point=[x])
            return
        try:
            f0, f1, f2 = (complex(m.diff(g, m.mpf(x), k)) for k in (0, 1, 2))
        except Exception:
            ctx.count('skipped_reference_derivative_failed')
            return
        xs_ = max(abs(x), 1.0) if (abs(x) >= 1e-12 or x == 0.0) else abs(x)
        s1 = abs(f1) + abs(f0) / xs_                     # natural sizes of the two derivatives at this point
        s2 = abs(f2) + abs(f1) / xs_ + abs(f0) / xs_ ** 2
        d1, d2 = z1.imag / h, z2.imag / (h * h)
        trunc = hrel ** 2 * 100.0
        ctx.count('asserted:multicomplex_components')
        r1 = abs(d1 - f1) / ((MC_TOL + trunc) * s1) if s1 > 0 else 0.0
        r2 = abs(d2 - f2) / ((MC_TOL + trunc) * s2) if s2 > 0 else 0.0
        ctx.maximum('imag1_rel_err/tol:%s' % f, r1)
        ctx.maximum('imag12_rel_err/tol:%s' % f, r2)
        if not (r1 <= 1 and r2 <= 1):
            ctx.reject('multicomplex_component_differs_from_derivative', observed=[d1, d2], expected=[f1, f2],
                       detail=dict(f=f, x=x, h=h, hrel=hrel, r1=r1, r2=r2), function=f, base_point=[x],
                       which=('imag12' if r2 > 1 else 'imag1'), result_is_nan=bool(not (np.isfinite(d1) and np.isfinite(d2))),
                       relative_step_below_1e_7=bool(hrel < 1e-7))
            return
        ctx.nontrivial(('mc', f, int(np.floor(np.log10(hrel)))))
    elif kind == 'pow' and case.get('with_zero'):
        # an array that also holds a non-invertible element (x = 0 with the equal multicomplex steps h (i + j)): the ordinary
        # elements next to it are powers like any other
        pk, x, e = case['pk'], case['x'], case['e']
        hx = abs(case['h'][0]) or 1e-6 * abs(x)
        xs = np.array([0.0, x, 1.5 * x])
        hs = np.array([[hx, hx, 0.0]] * 3)
        try:
            with np.errstate(all='ignore'):
                res = bic(xs, hs) ** e
        except Exception as exc:
            ctx.reject('raised', observed=repr(exc), function='pow:' + pk + ':array_with_zero')
            return
        ctx.count('pow_arrays_with_a_non_invertible_element')
        fn = lambda p_: m.power(p_, m.mpf(e))
        for k in (1, 2):
            a, b = idem(float(xs[k]), list(hs[k]))
            Z1, Z2 = from_idem(fn(a), fn(b))
            cond = (numcond(fn, [a]) + numcond(fn, [b])) * (1 + float(abs(m.log(a))) + float(abs(m.log(b))))
            ctx.count('asserted:pow')
            if not compare(ctx, case, 'pow:' + pk + ':array_with_zero', complex(res.z1[k]), complex(res.z2[k]), Z1, Z2, cond):
                return
    elif kind == 'pow':
        pk, x, e, h, he = case['pk'], case['x'], case['e'], case['h'], case['he']
        try:
            with np.errstate(all='ignore'):
                if pk == 'rpow':
                    res = e ** bic(x, h)
                elif pk == 'bicomplex':
                    res = bic(x, h) ** bic(e, he)
                elif pk == 'real_intvalued':
                    res = bic(x, h) ** (np.float64(e) if case.get('np_float') else float(e))
                elif pk == 'int':
                    # the same integer as a Python int or as a numpy integer scalar (an element of np.arange, np.int32 ...)
                    ek = [int(e), int(e), np.int64(e), np.int32(e), np.arange(int(e), int(e) + 1)[0], np.int8(e)][int(abs(x) * 1000) % 6]
                    if not isinstance(ek, int):
                        ctx.count('integer_exponent_as_numpy_integer')
                    res = bic(x, h) ** ek
                else:
                    res = bic(x, h) ** e
        except Exception as exc:
            ctx.reject('raised', observed=repr(exc), function='pow:' + pk)
            return
        a, b = idem(x, h)
        if pk != 'rpow' and max(abs(complex(a) - x), abs(complex(b) - x)) > 0.5 * abs(x):
            ctx.count('skipped_outside_neighbourhood_of_real_domain')
            return
        if pk == 'rpow':
            fn = lambda p: m.power(m.mpf(e), p)
            Z1, Z2 = from_idem(fn(a), fn(b))
            cond = numcond(fn, [a]) + numcond(fn, [b])
        elif pk == 'bicomplex':
            ae, be = idem(e, he)
            fn = lambda p, q: m.exp(q * m.log(p))
            Z1, Z2 = from_idem(fn(a, ae), fn(b, be))
            cond = numcond(fn, [a, ae]) + numcond(fn, [b, be])
        else:
            if pk in ('int', 'real_intvalued'):
                fn = lambda p: p ** int(e)
            else:
                fn = lambda p: m.power(p, m.mpf(e))
            Z1, Z2 = from_idem(fn(a), fn(b))
            cond = numcond(fn, [a]) + numcond(fn, [b])
        cond *= 1 + float(abs(m.log(a))) + float(abs(m.log(b))) if pk != 'rpow' else 1.0
        ctx.count('asserted:pow')
        if compare(ctx, case, 'pow:' + pk + ('(negative base)' if (pk == 'int' and x < 0) else ''),
                   complex(res.z1), complex(res.z2), Z1, Z2, cond) and all(h):
            ctx.nontrivial(_nontrivial_key('pow:' + pk, h))
    else:   # compose
        tree = X.from_json(case['tree'])
        x, h = case['x'], case['h']
        a, b = idem(x, h)
        # the composition must stay inside the principal-branch domain on the real base point
        # and on both idempotent arguments
        sc = X.scan(tree, [x, complex(a), complex(b), complex(a).real, complex(b).real])
        if not sc.ok or sc.maxabs > 1e6:
            ctx.count('skipped_composition_outside_domain')
            return
        if not X.neighbourhood_ok(tree, x, complex(a), complex(b)):
            ctx.count('skipped_outside_neighbourhood_of_real_domain')
            return
        case['_qo'] = quotient_overflow(tree, x)
        g = lambda p: X.eval_mp(tree, p, m)
        try:
            fa, fb = g(a), g(b)
            cond = numcond(g, [a]) + numcond(g, [b])
        except Exception:
            ctx.count('skipped_composition_outside_domain')
            return
        # rounding committed at an inner node propagates to the result with that node's own sensitivity:
        # measured by perturbing each node's value (relative 1e-18) and re-evaluating the rest of the tree
        inner = 0.0
        dlt = m.mpf(EPS)      # finite perturbation of the size of one rounding: also right for nonlinear
        nlist = list(X.nodes(tree))   # cancellation such as log(x/x)**5
        try:
            for idx, node in enumerate(nlist):
                if node[0] in ('x', 'c'):
                    continue
                floor = 1.0 if (node[0] == 'fn' and node[1] in LOG_FORMULA) else 0.0
                for p_, f0 in ((a, fa), (b, fb)):
                    fp = X.eval_mp_perturbed(tree, p_, m, idx, 1 + dlt)
                    fm = X.eval_mp_perturbed(tree, p_, m, idx, 1 - dlt)
                    sens = float(max(abs(fp - f0), abs(fm - f0)) / dlt)      # ~ |dF/dnode| * |node|
                    if floor:
                        nv = abs(X.eval_mp(node, p_, m))
                        sens += float(abs(fp - f0) / dlt / nv) * floor if nv > 0 else 0.0
                    inner += sens
        except Exception:
            ctx.count('skipped_composition_outside_domain')
            return
        try:
            with np.errstate(all='ignore'):
                res = wrap(X.compile_np(tree)(bic(x, h)))
        except Exception as exc:
            ctx.reject('raised', observed=repr(exc)[:300], function='compose', detail=dict(tree=X.to_str(tree)))
            return
        Z1, Z2 = from_idem(fa, fb)
        ctx.count('asserted:compose')
        if compare(ctx, case, 'compose', complex(res.z1), complex(res.z2), Z1, Z2, cond + inner):
            ctx.nontrivial(_nontrivial_key('compose:' + X.to_str(tree), h))
            if len(ctx.samples) < 5:
                ctx.sample(dict(program=X.to_str(tree), x=x, h=h, observed=[complex(res.z1), complex(res.z2)]))


def classify(wit):
    f = wit.get('facts') or {}
    if wit.get('check') == 'differs_from_holomorphic_extension' and f.get('result_is_nan') and f.get('quotient_overflow'):
        return 'bicomplex-quotient-overflow'
    if wit.get('check') == 'multicomplex_component_differs_from_derivative' and f.get('function') in ('arctan', 'arcsin', 'arccos') \
            and f.get('which') == 'imag12' and f.get('relative_step_below_1e_7') and not f.get('result_is_nan'):
        return 'multicomplex-log-formula-cancellation'
    return None


TECHNIQUE = ('runtime monitoring: contracts on every Bicomplex operator/method result (direct and via numpy ufunc '
             'dispatch) against the idempotent-decomposition model evaluated with 40-digit mpmath')
LEVEL_TEXT = ('exploration: each observed Bicomplex result is decided componentwise by the holomorphic-extension model; '
              'held on the executions observed')
LEVEL_NOTE = 'trusts mpmath complex elementary functions at 40 digits; tolerance C*eps*(norm + measured conditioning)'
