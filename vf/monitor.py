"""In-situ observers on the real code objects of the library, via sys.monitoring (PEP 669).

A watch is keyed on the *code object*, so every call site is seen, however the function
was imported or bound.  Callbacks receive the callee's frame (arguments/locals) and the
returned / yielded value; they must not raise (exceptions are recorded and swallowed so a
monitor never changes the behaviour it observes).

Anchor reach: per watched function, number of entries, returns, yields, raises and (one
shot per line) the set of executed lines.
"""
import importlib
import sys
import types

TOOL = 3
_mon = sys.monitoring
E = _mon.events


def resolve(qualname):
    """'numdifftools.core:Derivative.__call__' -> function object (unwraps staticmethod,
    classmethod and property getters).  Raises LookupError if it no longer resolves."""
    modname, _, path = qualname.partition(':')
    try:
        obj = importlib.import_module(modname)
    except Exception as exc:  # pragma: no cover
        raise LookupError('%s: %r' % (qualname, exc))
    parent = None
    for part in path.split('.'):
        parent = obj
        try:
            if isinstance(parent, type):
                raw = None
                for klass in parent.__mro__:
                    if part in klass.__dict__:
                        raw = klass.__dict__[part]
                        break
                if raw is None:
                    raise AttributeError(part)
                obj = raw
            else:
                obj = getattr(parent, part)
        except AttributeError:
            raise LookupError(qualname)
        if isinstance(obj, (staticmethod, classmethod)):
            obj = obj.__func__
        elif isinstance(obj, property):
            obj = obj.fget
    # a function wrapped by a decorator that keeps __wrapped__ (functools.lru_cache, functools.wraps): observe the function
    # underneath (a memoising wrapper then simply produces fewer entries of it)
    hops = 0
    while not isinstance(obj, types.FunctionType) and hasattr(obj, '__wrapped__') and hops < 5:
        obj = obj.__wrapped__
        hops += 1
    if not isinstance(obj, types.FunctionType):
        raise LookupError('%s is not a python function' % qualname)
    return obj


class Watch(object):
    __slots__ = ('name', 'code', 'on_start', 'on_return', 'on_yield', 'on_raise',
                 'calls', 'returns', 'yields', 'raises', 'lines_hit', 'lines_total',
                 'lines')

    def __init__(self, name, code):
        self.name = name
        self.code = code
        self.on_start = self.on_return = self.on_yield = self.on_raise = None
        self.calls = self.returns = self.yields = self.raises = 0
        self.lines_hit = set()
        self.lines_total = len({ln for (_, _, ln) in code.co_lines()
                                if ln is not None and ln != code.co_firstlineno})
        self.lines = False


class Monitor(object):
    """One instance per process."""

    def __init__(self):
        self.watches = {}
        self.errors = []
        self.active = False
        self.unresolved = []
        self.line_hook = None      # optional callable(code, line) run on *every* line event

    def watch(self, qualname, on_start=None, on_return=None, on_yield=None, on_raise=None,
              lines=True):
        try:
            fn = resolve(qualname)
        except LookupError as exc:
            self.unresolved.append(str(exc))
            return None
        code = fn.__code__
        w = self.watches.get(code)
        if w is None:
            w = Watch(qualname, code)
            self.watches[code] = w
        w.on_start = on_start or w.on_start
        w.on_return = on_return or w.on_return
        w.on_yield = on_yield or w.on_yield
        w.on_raise = on_raise or w.on_raise
        w.lines = lines
        if self.active:
            self._arm(w)
        return w

    def _arm(self, w):
        ev = E.PY_START | E.PY_RETURN | E.PY_YIELD   # RAISE cannot be a local event
        if w.lines:
            ev |= E.LINE
        _mon.set_local_events(TOOL, w.code, ev)

    # --- callbacks -----------------------------------------------------------------
    def _safe(self, cb, *args):
        try:
            cb(*args)
        except Exception as exc:  # a monitor must never disturb the code under test
            if len(self.errors) < 20:
                import traceback
                self.errors.append(traceback.format_exc(limit=6))

    def _start(self, code, offset):
        w = self.watches.get(code)
        if w is None:
            return _mon.DISABLE
        w.calls += 1
        if w.on_start is not None:
            self._safe(w.on_start, sys._getframe(1))

    def _return(self, code, offset, retval):
        w = self.watches.get(code)
        if w is None:
            return _mon.DISABLE
        w.returns += 1
        if w.on_return is not None:
            self._safe(w.on_return, sys._getframe(1), retval)

    def _yield(self, code, offset, retval):
        w = self.watches.get(code)
        if w is None:
            return _mon.DISABLE
        w.yields += 1
        if w.on_yield is not None:
            self._safe(w.on_yield, sys._getframe(1), retval)

    def _raise(self, code, offset, exc):
        w = self.watches.get(code)
        if w is None:
            return None
        w.raises += 1
        if w.on_raise is not None:
            self._safe(w.on_raise, sys._getframe(1), exc)

    def _line(self, code, line):
        w = self.watches.get(code)
        if w is None:
            return _mon.DISABLE
        w.lines_hit.add(line)
        if self.line_hook is not None:
            self._safe(self.line_hook, code, line)
            return None
        return _mon.DISABLE   # one shot per line

    # --- life cycle ----------------------------------------------------------------
    def start(self):
        if self.active:
            return
        _mon.use_tool_id(TOOL, 'vf-monitor')
        _mon.register_callback(TOOL, E.PY_START, self._start)
        _mon.register_callback(TOOL, E.PY_RETURN, self._return)
        _mon.register_callback(TOOL, E.PY_YIELD, self._yield)
        _mon.register_callback(TOOL, E.LINE, self._line)
        self.active = True
        for w in self.watches.values():
            self._arm(w)

    def stop(self):
        if not self.active:
            return
        for w in self.watches.values():
            _mon.set_local_events(TOOL, w.code, 0)
        for ev in (E.PY_START, E.PY_RETURN, E.PY_YIELD, E.LINE):
            _mon.register_callback(TOOL, ev, None)
        _mon.free_tool_id(TOOL)
        self.active = False

    def stats(self):
        out = {}
        for w in self.watches.values():
            out[w.name] = dict(calls=w.calls, returns=w.returns, yields=w.yields,
                               raises=w.raises, lines_hit=len(w.lines_hit - {w.code.co_firstlineno}),
                               lines_total=w.lines_total)
        return out
